"""In-memory wire (DESIGN §2.2): a pair of asyncio transports written against the
behaviour of `asyncio.selector_events._SelectorSocketTransport` (3.12).

Bytes written by one end are logged verbatim (`sent`, one entry per write call)
and queued in `wire` until the harness *delivers* them to the other end's
protocol (an environment event).  Nothing here schedules delivery by itself.
"""
from __future__ import annotations

import asyncio


class MemTransport(asyncio.Transport):
    def __init__(self, loop, protocol, name="t", extra=None, high_water=64 * 1024):
        super().__init__(extra or {})
        self._loop = loop
        self._protocol = protocol
        self.name = name
        self.peer: "MemTransport | None" = None
        self.sent: list[bytes] = []        # verbatim write log
        self.wire = bytearray()            # in flight towards the peer
        self.kernel_full = False           # env: socket send buffer full -> writes are buffered
        self._buffer = bytearray()         # transport write buffer (only when kernel_full)
        self._high = high_water
        self._low = high_water // 4
        self._protocol_paused = False
        self._closing = False
        self._conn_lost = 0
        self._lost_called = False
        self._paused = False               # reading paused
        self._eof_written = False
        self.eof_pending = False           # peer must still be told EOF
        self.peer_eof_seen = False
        self.delivered_while_paused = 0
        self.pause_calls = 0
        self.resume_calls = 0
        self.closed_by = None

    # -- info ---------------------------------------------------------------
    def get_extra_info(self, name, default=None):
        return self._extra.get(name, default)

    def is_closing(self):
        return self._closing

    def get_protocol(self):
        return self._protocol

    def set_protocol(self, protocol):
        self._protocol = protocol

    # -- reading ------------------------------------------------------------
    def is_reading(self):
        return not self._closing and not self._paused

    def pause_reading(self):
        self.pause_calls += 1
        if not self.is_reading():
            return
        self._paused = True

    def resume_reading(self):
        self.resume_calls += 1
        if self._closing or not self._paused:
            return
        self._paused = False

    # -- writing ------------------------------------------------------------
    def set_write_buffer_limits(self, high=None, low=None):
        if high is None:
            high = 64 * 1024 if low is None else 4 * low
        if low is None:
            low = high // 4
        self._high, self._low = high, low

    def get_write_buffer_size(self):
        return len(self._buffer)

    def get_write_buffer_limits(self):
        return (self._low, self._high)

    def write(self, data):
        if not isinstance(data, (bytes, bytearray, memoryview)):
            raise TypeError(f"data argument must be a bytes-like object, not {type(data).__name__!r}")
        if self._eof_written:
            raise RuntimeError("Cannot call write() after write_eof()")
        if not data:
            return
        if self._conn_lost:
            self._conn_lost += 1
            return
        data = bytes(data)
        self.sent.append(data)
        if self.kernel_full or self._buffer:
            self._buffer += data
            self._maybe_pause_protocol()
        else:
            self.wire += data

    def writelines(self, list_of_data):
        self.write(b"".join(bytes(d) for d in list_of_data))

    def _maybe_pause_protocol(self):
        if len(self._buffer) > self._high and not self._protocol_paused:
            self._protocol_paused = True
            self._protocol.pause_writing()

    def flush_kernel(self):
        """Env event: the socket became writable; the whole buffer goes out."""
        self.kernel_full = False
        self.wire += self._buffer
        self._buffer.clear()
        if self._protocol_paused:
            self._protocol_paused = False
            self._protocol.resume_writing()
        if self._closing and not self._lost_called:
            self._loop.call_soon(self._call_connection_lost, None)
        if self._eof_written:
            self.eof_pending = True

    def can_write_eof(self):
        return True

    def write_eof(self):
        if self._closing or self._eof_written:
            return
        self._eof_written = True
        if not self._buffer:
            self.eof_pending = True

    # -- closing ------------------------------------------------------------
    def close(self):
        if self._closing:
            return
        self._closing = True
        self.closed_by = self.closed_by or "close"
        if not self._buffer:
            self._conn_lost += 1
            self._loop.call_soon(self._call_connection_lost, None)
        # after the in-flight bytes the peer sees EOF
        self.eof_pending = True

    def abort(self):
        self._force_close(None)

    def _force_close(self, exc):
        if self._conn_lost and self._closing and not self._buffer:
            return
        self._buffer.clear()
        if not self._closing:
            self._closing = True
            self.closed_by = self.closed_by or "abort"
        self._conn_lost += 1
        self.eof_pending = True
        self._loop.call_soon(self._call_connection_lost, exc)

    def _call_connection_lost(self, exc):
        if self._lost_called:
            return
        self._lost_called = True
        try:
            self._protocol.connection_lost(exc)
        finally:
            pass

    # -- environment side -----------------------------------------------------
    def deliverable(self) -> int:
        """Bytes the peer wrote that this end could receive now."""
        p = self.peer
        if p is None or self._closing or self._paused or self._lost_called:
            return 0
        return len(p.wire)

    def deliver(self, n: int | None = None) -> bytes:
        """Env event: `n` (default all) in-flight bytes arrive at this end."""
        p = self.peer
        if self._paused and not (self._closing or self._lost_called):
            # pause_reading() removed the reader: a read event that was already
            # queued in the same pass is cancelled with it; the bytes stay put
            return b""
        avail = len(p.wire)
        n = avail if n is None else min(n, avail)
        data = bytes(p.wire[:n])
        del p.wire[:n]
        if self._closing or self._lost_called:
            return b""  # socket already closed: arriving bytes are discarded
        if data:
            self._protocol.data_received(data)
        return data

    def eof_deliverable(self) -> bool:
        p = self.peer
        # a transport whose reading is paused has no reader registered: it cannot notice the FIN either
        return (p is not None and p.eof_pending and not p.wire and not self.peer_eof_seen
                and not self._lost_called and not self._closing and not self._paused)

    def deliver_eof(self):
        """Env event: the peer's FIN arrives (all its data was delivered before)."""
        self.peer_eof_seen = True
        keep_open = self._protocol.eof_received()
        if not keep_open:
            self.close()

    def drop(self, exc=None):
        """Env event: connection reset by the network."""
        self.closed_by = self.closed_by or "drop"
        self._force_close(exc or ConnectionResetError("Connection lost"))


def pair(loop, proto_a, proto_b, extra_a=None, extra_b=None):
    """Two connected transports; connection_made is NOT called here."""
    a = MemTransport(loop, proto_a, "a", extra_a or {"peername": ("127.0.0.1", 40000), "sockname": ("127.0.0.1", 80)})
    b = MemTransport(loop, proto_b, "b", extra_b or {"peername": ("127.0.0.1", 80), "sockname": ("127.0.0.1", 40000)})
    a.peer, b.peer = b, a
    return a, b


class SinkProtocol(asyncio.Protocol):
    """Scripted peer: records everything, never reacts by itself."""

    def __init__(self):
        self.received = bytearray()
        self.eof = False
        self.lost = None
        self.transport = None

    def connection_made(self, transport):
        self.transport = transport

    def data_received(self, data):
        self.received += data

    def eof_received(self):
        self.eof = True
        return True  # keep our side open; the script decides when to close

    def connection_lost(self, exc):
        self.lost = (exc,)
