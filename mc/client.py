"""Real aiohttp client side on the in-memory wire: a BaseConnector whose
connections end at scripted peers (or at a real RequestHandler)."""
from __future__ import annotations

import asyncio

from aiohttp.connector import BaseConnector

from refs import http1

from .wire import pair


class ScriptPeer(asyncio.Protocol):
    """Origin server end of one connection.  Records; reacts only when the
    harness tells it to (respond / send / close are environment events)."""

    def __init__(self, env, index, key):
        self.env = env
        self.index = index
        self.key = key                  # ConnectionKey the connector asked for
        self.buf = bytearray()          # everything the client sent
        self.transport = None
        self.eof = False
        self.lost = None
        self.answered = 0               # requests answered so far
        self.tainted_at = None          # delivery tick of the first stray byte
        self.requests_seen = []

    def connection_made(self, transport):
        self.transport = transport

    def data_received(self, data):
        self.buf += data

    def eof_received(self):
        self.eof = True
        return True

    def connection_lost(self, exc):
        self.lost = (exc,)

    def requests(self):
        """Requests read so far by the independent reader (heads complete)."""
        return http1.read_requests(bytes(self.buf)).messages

    def send(self, data: bytes):
        self.transport.write(data)

    def close(self):
        self.transport.close()


class WireConnector(BaseConnector):
    """Real pool logic; `_create_connection` makes an in-memory connection to a
    peer produced by `env.new_peer(req, index)`.  `connect()` reports every
    hand-out to the environment (`env.on_acquire(proto, req)`)."""

    allowed_protocol_schema_set = frozenset({"", "http", "https", "ws", "wss"})

    def __init__(self, env, **kw):
        super().__init__(**kw)
        self.env = env
        self.created = []   # [(client_transport, peer_transport, peer)]

    async def connect(self, req, traces, timeout):
        conn = await super().connect(req, traces, timeout)
        self.env.on_acquire(conn.protocol, req)
        return conn

    async def _create_connection(self, req, traces, timeout):
        gate = self.env.connect_gate(req)
        if gate is not None:
            await gate
        proto = self._factory()
        index = len(self.created)
        peer = self.env.new_peer(req, index)
        ct, st = pair(self._loop, proto, peer)
        self.created.append((ct, st, peer))
        proto.connection_made(ct)
        peer.connection_made(st)
        return proto

    def index_of(self, proto):
        for i, (ct, _st, _p) in enumerate(self.created):
            if ct.get_protocol() is proto:
                return i
        return None
