"""./check <Cnn> [--tier quick|thorough] [--replay file]

exit 0: property held on everything explored (KNOWN-FINDING lines allowed)
exit 1: `VIOLATION property=<id> replay=<path>` printed
exit 2: harness broken (binding / determinism / merge check / evidence) - never a pass
"""
import argparse
import importlib
import json
import os
import sys
import traceback
import warnings

sys.path.insert(0, os.path.dirname(os.path.dirname(os.path.abspath(__file__))))
from mc import bind  # noqa: E402  (must come before any aiohttp import)


def main() -> int:
    ap = argparse.ArgumentParser()
    ap.add_argument("prop")
    ap.add_argument("--tier", default=os.environ.get("VERIF_TIER", "quick"), choices=["quick", "thorough"])
    ap.add_argument("--replay")
    ap.add_argument("--selftest", action="store_true")
    args = ap.parse_args()
    prop = args.prop.upper()
    try:
        seed = int(os.environ.get("VERIF_SEED", "0"))
    except ValueError:
        seed = 0

    warnings.simplefilter("ignore")
    import logging

    logging.disable(logging.CRITICAL)

    from mc import core

    try:
        bind.assert_bound()
        mod = importlib.import_module("harness." + prop.lower())
        if args.replay:
            with open(args.replay) as f:
                rec = json.load(f)
            case = core.unjson(rec["case"])
            hits = [mod.replay(case), mod.replay(case)]
            want = rec.get("sig")
            ok = all(any(v["sig"] == want for v in h) for h in hits)
            for v in hits[0]:
                print(f"  sig={v['sig']}: {v['msg']}")
            if ok:
                print(f"VIOLATION property={prop} replay={os.path.abspath(args.replay)}")
                return 1
            print("replay: violation not reproduced on this tree")
            return 0
        ctx = core.Ctx(prop, args.tier, seed)
        if args.selftest:
            mod.selftest(ctx)
            print("selftest ok")
            return 0
        try:
            mod.run(ctx)
        finally:
            ctx.close_pool()
        rc = core.finish(ctx, mod)
        c = ctx.counters
        print(
            f"{prop} tier={args.tier} seed={seed} executions={c.get('executions', 0)} "
            f"transitions={c.get('transitions', 0)} states={len(ctx.state_hashes)} "
            f"outcomes={len(ctx.outcome_hashes)} exhaustive={ctx.exhaustive and not ctx.caps} "
            f"caps={ctx.caps} wall={ctx.elapsed():.1f}s rc={rc}"
        )
        return rc
    except (bind.BindingError, core.HarnessError) as e:
        print(f"HARNESS-ERROR property={prop}: {e}", file=sys.stderr)
        return 2
    except Exception:
        print(f"HARNESS-ERROR property={prop}:\n{traceback.format_exc()}", file=sys.stderr)
        return 2


if __name__ == "__main__":
    sys.exit(main())
