"""Explicit-state breadth-first search over operation histories of a real object
(DESIGN §2.4).

A *sim* couples the real object with its reference model:

    sim = factory(config)
    sim.enabled() -> list of op labels (JSON-able), simplest first
    sim.apply(op) -> obs            # runs op on the real object AND checks the oracle;
                                    # problems are appended to sim.problems [(sig,msg)]
    sim.canon()   -> hashable       # exactly the fields later behaviour can depend on
    sim.close()

A state is the history that reaches it; every expansion rebuilds a fresh real
object and replays (live coroutines cannot be copied).  Histories with equal
canon are merged; every `merge_stride`-th merge is *checked*: both histories
are extended with every enabled op and must produce identical observations and
canons, otherwise the abstraction is too coarse -> HarnessError.
"""
from __future__ import annotations

import importlib

from .core import Ctx, HarnessError, Part, h64, jsonable


def _factory(spec):
    mod = importlib.import_module(spec["module"])
    return getattr(mod, spec["factory"])


def _replay(spec, hist):
    sim = _factory(spec)(spec["config"])
    # prefixes were checked when first explored: a sim may offer a cheaper,
    # oracle-free way to re-apply them
    step = getattr(sim, "apply_quiet", sim.apply)
    for op in hist:
        step(op)
    return sim


def _expand_job(job):
    spec, hists = job
    part = Part()
    children = []
    for hist in hists:
        base = _replay(spec, hist)
        ops = list(base.enabled())
        base.close()
        for op in ops:
            sim = _replay(spec, hist)
            n_before = len(sim.problems)
            obs = sim.apply(op)
            part.count("transitions")
            part.count("executions")
            part.outcome((op, obs))
            for sig, msg in sim.problems[n_before:]:
                part.violation(sig, msg, {"kind": "seq", "spec": spec, "hist": list(hist) + [op]})
            bad = bool(sim.problems)
            canon = sim.canon()
            sim.close()
            if bad:
                # do not extend histories that already violated: later steps would
                # only repeat the same failure in longer form
                part.count("pruned_after_violation")
                continue
            children.append((h64(canon), list(hist) + [op]))
        if len(part.samples) < 2 and hist:
            part.sample({"config": spec["config"], "history": hist})
    part.children = children
    return part


def _merge_check_job(job):
    spec, pairs = job
    part = Part()
    part.mismatches = []
    for ha, hb in pairs:
        a = _replay(spec, ha)
        ops_a = list(a.enabled())
        a.close()
        b = _replay(spec, hb)
        ops_b = list(b.enabled())
        b.close()
        part.count("merge_checks")
        if ops_a != ops_b:
            part.mismatches.append((ha, hb, "enabled", ops_a, ops_b))
            continue
        for op in ops_a:
            a = _replay(spec, ha)
            oa = a.apply(op)
            ca = a.canon()
            a.close()
            b = _replay(spec, hb)
            ob = b.apply(op)
            cb = b.canon()
            b.close()
            if oa != ob or ca != cb:
                part.mismatches.append((ha, hb, op, (oa, ca), (ob, cb)))
                break
    return part


def bfs(ctx: Ctx, spec: dict, max_depth: int, merge_stride: int = 53, batch: int = 40,
        max_states: int | None = None, section: str | None = None):
    """Level-synchronous BFS.  Returns number of states."""
    section = section or repr(spec["config"])
    root = _replay(spec, [])
    seen = {h64(root.canon()): []}
    root.close()
    ctx.state_hashes.add(h64((section, next(iter(seen)))))
    frontier = [[]]
    merges = 0
    to_check = []
    depth = 0
    exhausted = False
    while frontier and depth < max_depth:
        depth += 1
        jobs = [(spec, frontier[i:i + batch]) for i in range(0, len(frontier), batch)]
        nxt = []
        for part in ctx.pmap(_expand_job, jobs):
            ctx.merge(part, section)
            for ch, hist in part.children:
                if ch in seen:
                    merges += 1
                    if merges % merge_stride == 0:
                        to_check.append((seen[ch], hist))
                    continue
                seen[ch] = hist
                ctx.state_hashes.add(h64((section, ch)))
                nxt.append(hist)
        frontier = nxt
        if max_states and len(seen) > max_states:
            ctx.cap(f"{section}: state cap {max_states} hit at depth {depth}")
            break
    else:
        exhausted = not frontier
    # merge checks
    if to_check:
        jobs = [(spec, to_check[i:i + 10]) for i in range(0, len(to_check), 10)]
        for part in ctx.pmap(_merge_check_job, jobs):
            ctx.merge(part, section)
            if part.mismatches:
                m = part.mismatches[0]
                ctx.notes.setdefault("merge_mismatches", []).append(jsonable(m[:3]))
                if ctx.violations:
                    # the tree already violates the property; hidden invariants the
                    # abstraction relies on may be broken with it - report, don't mask
                    continue
                raise HarnessError(
                    f"canon too coarse for {spec['module']}: histories {m[0]} and {m[1]} merged "
                    f"but differ on {m[2]}: {m[3]} vs {m[4]}"
                )
    sec = ctx.sections.setdefault(section, {})
    sec["states"] = len(seen)
    sec["max_depth"] = depth
    sec["frontier_exhausted"] = exhausted
    sec["merges"] = merges
    ctx.count("merges", merges)
    return len(seen)


def replay_case(case):
    """Replay a recorded SEQ violation; returns violations found."""
    spec = case["spec"]
    sim = _factory(spec)(spec["config"])
    for op in case["hist"]:
        sim.apply(op)
    out = [{"sig": s, "msg": m, "case": jsonable(case)} for s, m in sim.problems]
    sim.close()
    return out
