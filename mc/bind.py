"""Bind the check process to the aiohttp working tree (DESIGN §1).

/venv carries a released aiohttp wheel; the tree under test is only imported
when it is first on sys.path.  Every check imports this module first.
"""
import os
import sys

REPO = os.environ.get("VERIF_REPO", "/repo")
VERIF = os.path.dirname(os.path.dirname(os.path.abspath(__file__)))

if VERIF not in sys.path:
    sys.path.insert(0, VERIF)
# /repo must win over site-packages
sys.path[:] = [p for p in sys.path if os.path.abspath(p or ".") != os.path.abspath(REPO)]
sys.path.insert(0, REPO)
os.environ.setdefault("AIOHTTP_NO_EXTENSIONS", "1")


class BindingError(Exception):
    pass


def assert_bound():
    import aiohttp
    from aiohttp import http_parser, http_writer

    here = os.path.realpath(aiohttp.__file__)
    if not here.startswith(os.path.realpath(REPO) + os.sep):
        raise BindingError(f"aiohttp imported from {here}, not from {REPO}")
    if http_parser.HttpRequestParser is not http_parser.HttpRequestParserPy:
        raise BindingError("compiled request parser is active")
    if http_parser.HttpResponseParser is not http_parser.HttpResponseParserPy:
        raise BindingError("compiled response parser is active")
    if http_writer._serialize_headers is not http_writer._py_serialize_headers:
        raise BindingError("compiled header serializer is active")
    from aiohttp._websocket import reader as _r, reader_py as _rp

    if _r.WebSocketReader is not _rp.WebSocketReader:
        raise BindingError("compiled websocket reader is active")
    return here


def tree_id():
    """git HEAD + dirty flag + hash of aiohttp/*.py, recorded in evidence."""
    import hashlib
    import subprocess

    try:
        head = subprocess.run(
            ["git", "-C", REPO, "rev-parse", "HEAD"], capture_output=True, text=True
        ).stdout.strip()
        dirty = bool(
            subprocess.run(
                ["git", "-C", REPO, "status", "--porcelain", "--", "aiohttp"],
                capture_output=True,
                text=True,
            ).stdout.strip()
        )
    except Exception:
        head, dirty = "unknown", True
    h = hashlib.sha256()
    base = os.path.join(REPO, "aiohttp")
    for root, _dirs, files in sorted(os.walk(base)):
        for f in sorted(files):
            if f.endswith(".py"):
                p = os.path.join(root, f)
                h.update(os.path.relpath(p, base).encode())
                with open(p, "rb") as fh:
                    h.update(fh.read())
    return {"head": head, "dirty": dirty, "src_sha256": h.hexdigest()[:16]}
