"""Virtual event loop (DESIGN §2.1).

A `BaseEventLoop` without a selector: `time()` is a virtual clock, handles in
`_ready` run FIFO one *pass* at a time (exactly the handles present at pass
start, like `_run_once`), due timers are admitted at the pass boundary after
injected I/O handlers.  `events._set_running_loop(loop)` is held for the whole
execution so stock Task/Future/timeout/Lock and eager tasks work unmodified.
"""
from __future__ import annotations

import asyncio
import gc
import heapq
from asyncio import base_events, events


class VLoop(base_events.BaseEventLoop):
    _held = False

    def __init__(self):
        super().__init__()
        self._vtime = 0.0
        self._clock_resolution = 1e-9
        self.exc_contexts: list[dict] = []
        self.set_exception_handler(self._on_exc)
        self.exec_jobs: list = []  # pending run_in_executor jobs (fut, func, args)
        self.passes = 0
        self._held = False

    # -- BaseEventLoop plumbing ------------------------------------------
    def time(self):
        return self._vtime

    def _process_events(self, event_list):  # pragma: no cover
        pass

    def _write_to_self(self):
        pass

    def _on_exc(self, loop, context):
        self.exc_contexts.append(context)

    def call_soon_threadsafe(self, callback, *args, context=None):
        return self.call_soon(callback, *args, context=context)

    # exec_eager: an idle pool thread picks the job up at once - the function runs at submission and only the
    # delivery of its outcome to the loop is an environment event (matters for jobs that mutate shared state).
    exec_eager = False

    def run_in_executor(self, executor, func, *args):
        fut = self.create_future()
        if self.exec_eager:
            try:
                out = (True, func(*args))
            except BaseException as e:  # noqa: BLE001
                out = (False, e)

            def replay(out=out):
                if out[0]:
                    return out[1]
                raise out[1]
            self.exec_jobs.append((fut, replay, ()))
        else:
            self.exec_jobs.append((fut, func, args))
        return fut

    # A thread that already started a job cannot be stopped: with exec_runs_cancelled the function
    # still runs when its completion is delivered, only its result is dropped (what a real executor does).
    exec_runs_cancelled = False

    def complete_exec_job(self, idx=0):
        """idx: position in exec_jobs, or the job tuple itself (stable across several completions in one pass)."""
        if not isinstance(idx, int):
            for k, j in enumerate(self.exec_jobs):
                if j is idx:
                    idx = k
                    break
            else:
                return
        fut, func, args = self.exec_jobs.pop(idx)
        if fut.cancelled():
            if self.exec_runs_cancelled:
                try:
                    func(*args)
                except BaseException:  # noqa: BLE001
                    pass
            return
        try:
            res = func(*args)
        except BaseException as e:  # noqa: BLE001
            if not fut.done():
                fut.set_exception(e)
        else:
            if not fut.done():
                fut.set_result(res)

    async def shutdown_default_executor(self, timeout=None):
        return

    def add_signal_handler(self, sig, callback, *args):
        self._sig = getattr(self, "_sig", {})
        self._sig[sig] = (callback, args)

    def remove_signal_handler(self, sig):
        return getattr(self, "_sig", {}).pop(sig, None) is not None

    # -- fake listening sockets: sites can start; the harness creates connections itself --------
    async def create_server(self, protocol_factory, host=None, port=None, **kw):
        srv = FakeServer(self, protocol_factory, (host, port))
        self.servers = getattr(self, "servers", [])
        self.servers.append(srv)
        return srv

    async def create_unix_server(self, protocol_factory, path=None, **kw):
        return await self.create_server(protocol_factory, path, None)

    async def sendfile(self, *a, **kw):
        raise NotImplementedError

    async def sock_sendfile(self, *a, **kw):
        raise NotImplementedError

    # -- holding the loop as "running" -----------------------------------
    def hold(self):
        if not self._held:
            self._held = True
            self._prev = events._get_running_loop()
            events._set_running_loop(self)
        return self

    def release(self):
        if self._held:
            events._set_running_loop(self._prev)
            self._held = False

    def __enter__(self):
        return self.hold()

    def __exit__(self, *a):
        self.release()

    def is_running(self):
        return self._held

    # -- stepping ---------------------------------------------------------
    def has_ready(self) -> bool:
        return bool(self._ready)

    def next_timer(self):
        """Deadline of the earliest non-cancelled timer, or None."""
        while self._scheduled and self._scheduled[0]._cancelled:
            h = heapq.heappop(self._scheduled)
            h._scheduled = False
            self._timer_cancelled_count = max(0, self._timer_cancelled_count - 1)
        return self._scheduled[0]._when if self._scheduled else None

    def has_due_timer(self) -> bool:
        w = self.next_timer()
        return w is not None and w <= self._vtime + self._clock_resolution

    def inject(self, fn, *args):
        """Append an I/O handler to the ready queue (what `_process_events` does)."""
        self._ready.append(events.Handle(fn, args, self, None))

    def advance_to_next_timer(self) -> bool:
        w = self.next_timer()
        if w is None:
            return False
        if w > self._vtime:
            self._vtime = w
        return True

    def advance(self, dt: float):
        self._vtime += dt

    def run_pass(self):
        """One `_run_once` body: admit due timers, run the handles present now."""
        end = self._vtime + self._clock_resolution
        while self._scheduled:
            h = self._scheduled[0]
            if h._cancelled:
                heapq.heappop(self._scheduled)
                h._scheduled = False
                self._timer_cancelled_count = max(0, self._timer_cancelled_count - 1)
                continue
            if h._when >= end:
                break
            heapq.heappop(self._scheduled)
            h._scheduled = False
            self._ready.append(h)
        n = len(self._ready)
        for _ in range(n):
            h = self._ready.popleft()
            if h._cancelled:
                continue
            h._run()
        h = None
        self.passes += 1

    def drain(self, max_passes: int = 10000) -> int:
        """Run passes while handles are ready (no clock advance, no env events)."""
        n = 0
        while (self._ready or self.has_due_timer()) and n < max_passes:
            self.run_pass()
            n += 1
        return n

    def run_until_quiescent(self, max_passes: int = 100000, advance_clock=True, horizon: float = 1e9):
        """Default schedule without env events: drain, then advance the clock."""
        n = 0
        while n < max_passes:
            n += self.drain(max_passes - n)
            if not advance_clock:
                break
            w = self.next_timer()
            if w is None or w > horizon:
                break
            self.advance_to_next_timer()
        return n

    def collect_exceptions(self):
        """GC so that 'never retrieved' reports reach the handler, then return them."""
        gc.collect(1)
        return list(self.exc_contexts)

    def finish(self, tasks=None):
        """Tear down: cancel leftovers quietly and release the loop."""
        try:
            for t in list(asyncio.all_tasks(self)) if tasks is None else tasks:
                if not t.done():
                    t.cancel()
            self.drain(1000)
        finally:
            self.release()
            self._ready.clear()
            self._scheduled.clear()
            self._closed = True


class FakeServer:
    """What loop.create_server() returns, without a socket."""

    def __init__(self, loop, factory, addr):
        self._loop = loop
        self.factory = factory
        self.addr = addr
        self.closed = False
        self.sockets = []

    def close(self):
        self.closed = True

    async def wait_closed(self):
        return None

    def is_serving(self):
        return not self.closed

    def get_loop(self):
        return self._loop

    def close_clients(self):
        pass

    def abort_clients(self):
        pass
