"""Drive the real aiohttp HTTP parsers over a segmented byte stream and return a
canonical, comparable outcome (used by C01, C03, C10)."""
from __future__ import annotations

from aiohttp.base_protocol import BaseProtocol
from aiohttp.http_exceptions import HttpProcessingError
from aiohttp.http_parser import HttpRequestParser, HttpResponseParser
from aiohttp.streams import EmptyStreamReader

from .vloop import VLoop

_LOOP = None


def loop():
    global _LOOP
    if _LOOP is None:
        _LOOP = VLoop()
    return _LOOP


class _Tr:
    def __init__(self):
        self.paused = False
        self.pauses = 0

    def pause_reading(self):
        self.paused = True
        self.pauses += 1

    def resume_reading(self):
        self.paused = False

    def is_closing(self):
        return False


class _Proto(BaseProtocol):
    __slots__ = ("drv",)

    def data_received(self, data):
        # resume_reading() re-enters with b"" so the parser continues with what it kept
        self.drv._feed(data)


class Rec:
    """One delivered message and what its payload produced so far."""

    __slots__ = ("msg", "payload", "body", "splits", "offset")

    def __init__(self, msg, payload):
        self.msg = msg
        self.payload = payload
        self.body = bytearray()
        self.splits = []
        self.offset = 0


class Drv:
    def __init__(self, kind="request", limit=2 ** 16, max_line_size=8190, max_field_size=8190,
                 max_headers=128, drain=True, **kw):
        lp = loop()
        self.kind = kind
        self.tr = _Tr()
        self.proto = _Proto(lp)
        self.proto.drv = self
        self.proto.transport = self.tr
        cls = HttpRequestParser if kind == "request" else HttpResponseParser
        self.parser = cls(self.proto, lp, limit, max_line_size=max_line_size, max_field_size=max_field_size,
                          max_headers=max_headers, **kw)
        self.proto._parser = self.parser
        self.recs: list[Rec] = []
        self.error: BaseException | None = None
        self.upgraded = False
        self._tunnel = False
        self.tail = b""
        self.eof_msg = None
        self.drain = drain
        self.feeds = 0
        self.max_retained = 0
        self._in_feed = False

    # -- feeding ----------------------------------------------------------
    def _feed(self, data):
        if self.error is not None:
            return
        if self.upgraded and data and (self.parser._payload_parser is None or not self._tunnel):
            # protocol switched: later bytes are not HTTP - the server protocol stops feeding the parser the
            # moment it reports `upgraded`, whatever the parser still expects (only a CONNECT tunnel keeps its
            # payload parser and goes on through feed_data here)
            self.tail += data
            return
        try:
            msgs, upgraded, tail = self.parser.feed_data(data)
        except BaseException as e:  # noqa: BLE001
            self.error = e
            return
        for m, p in msgs:
            self.recs.append(Rec(m, p))
            self._tunnel = getattr(m, "method", None) == "CONNECT"
        if upgraded:
            self.upgraded = True
            self.proto._upgraded = True
            self.tail += tail

    def feed(self, data: bytes):
        self.feeds += 1
        self._feed(data)
        self.note_retained()
        if self.drain:
            self.drain_payloads()

    def feed_eof(self):
        if self.error is not None:
            return
        try:
            self.eof_msg = self.parser.feed_eof()
        except BaseException as e:  # noqa: BLE001
            self.error = e
        if self.drain:
            self.drain_payloads()

    def retained(self) -> int:
        p = self.parser
        n = len(p._tail) + sum(len(x) for x in p._lines)
        pp = p._payload_parser
        if pp is not None:
            n += len(pp._chunk_tail) + sum(len(x) for x in pp._trailer_lines)
        return n

    def note_retained(self):
        self.max_retained = max(self.max_retained, self.retained())

    def drain_payloads(self):
        """Consume what the payload streams hold (re-entering the parser on resume)."""
        progress = True
        guard = 0
        while progress and guard < 10000:
            guard += 1
            progress = False
            for r in self.recs:
                p = r.payload
                if isinstance(p, EmptyStreamReader):
                    continue
                if p._exception is not None:
                    if p._buffer:
                        # data buffered before the error is still the message's data
                        r.body += b"".join(p._buffer)[p._buffer_offset:]
                        p._buffer.clear()
                        p._buffer_offset = 0
                        p._size = 0
                        progress = True
                    continue
                # the way an application sees chunk boundaries: readchunk(), for as long as it would not wait
                while p._buffer or p._http_chunk_splits:
                    coro = p.readchunk()
                    try:
                        coro.send(None)
                    except StopIteration as si:
                        data, end = si.value
                    except BaseException:  # noqa: BLE001
                        # the stream failed meanwhile (reading resumed the parser): next round takes what is left
                        progress = p._exception is not None
                        break
                    else:
                        coro.close()
                        break
                    r.body += data
                    if end:
                        r.splits.append(len(r.body))      # an empty chunk report shows as a repeated offset
                    progress = True

    # -- outcome ----------------------------------------------------------
    def outcome(self):
        self.drain_payloads() if self.drain else None
        msgs = []
        for r in self.recs:
            m, p = r.msg, r.payload
            if self.drain:
                body = bytes(r.body)
                splits = tuple(r.splits)
            else:
                body = b"".join(p._buffer)[p._buffer_offset:] if not isinstance(p, EmptyStreamReader) else b""
                splits = tuple(p._http_chunk_splits or ()) if not isinstance(p, EmptyStreamReader) else ()
            exc = None if isinstance(p, EmptyStreamReader) else p.exception()
            head = (
                (m.method, m.path) if self.kind == "request" else (m.code, m.reason),
                tuple(m.version),
                tuple(m.raw_headers),
                bool(m.should_close), m.compression, bool(m.upgrade), bool(m.chunked),
            )
            msgs.append((head, body, splits, bool(p.is_eof()), type(exc).__name__ if exc is not None else None))
        err = None
        if self.error is not None:
            e = self.error
            err = ("http" if isinstance(e, HttpProcessingError) else "other", type(e).__name__, _msgkey(e))
        return {"msgs": msgs, "error": err, "upgraded": self.upgraded, "tail": self.tail}


def _msgkey(e) -> str:
    """First words of the error text (stable part, no echoed input)."""
    m = getattr(e, "message", None) or (str(e.args[0]) if e.args else "")
    words = str(m).replace("\n", " ").split(" ")[:4]
    return " ".join(w for w in words if w.isascii() and w.replace("-", "").replace("`", "").replace(":", "").replace(",", "").isalpha())


def parse(stream: bytes, cuts=(), kind="request", eof=False, **cfg):
    """Feed `stream` cut at the given offsets; returns (outcome, drv)."""
    d = Drv(kind, **cfg)
    prev = 0
    for c in cuts:
        d.feed(stream[prev:c])
        prev = c
    d.feed(stream[prev:])
    if eof:
        d.feed_eof()
    return d.outcome(), d
