"""Check context: counters, violations, known findings, evidence, parallel map.

A harness module exposes

    PROPERTY = "Cnn"
    def run(ctx): ...            # enumerates its space, calls ctx.* to report
    def replay(case) -> list     # re-runs one recorded case, returns violations

A *violation* is a dict {sig, msg, case}.  `sig` is the narrow, stable signature
used for known-finding matching (DESIGN §2.9); `case` is a JSON-serialisable
description sufficient for `replay`.
"""
from __future__ import annotations

import hashlib
import json
import multiprocessing as mp
import os
import subprocess
import sys
import time
import traceback

from . import bind

VERIF = bind.VERIF
LEVEL = "model_checking"


def digest(obj) -> str:
    return hashlib.sha1(repr(obj).encode("utf-8", "surrogatepass")).hexdigest()[:16]


def h64(obj) -> int:
    return int.from_bytes(
        hashlib.blake2b(repr(obj).encode("utf-8", "surrogatepass"), digest_size=8).digest(),
        "big",
    )


def jsonable(o):
    if isinstance(o, (bytes, bytearray)):
        return {"__bytes__": bytes(o).decode("latin1")}
    if isinstance(o, (list, tuple)):
        return [jsonable(x) for x in o]
    if isinstance(o, dict):
        return {str(k): jsonable(v) for k, v in o.items()}
    if isinstance(o, (set, frozenset)):
        return sorted((jsonable(x) for x in o), key=repr)
    if isinstance(o, (str, int, float, bool)) or o is None:
        return o
    return repr(o)


def unjson(o):
    if isinstance(o, dict):
        if set(o) == {"__bytes__"}:
            return o["__bytes__"].encode("latin1")
        return {k: unjson(v) for k, v in o.items()}
    if isinstance(o, list):
        return [unjson(x) for x in o]
    return o


class HarnessError(Exception):
    """The harness itself is broken (binding, determinism, merge check). Exit 2."""


class ExecutionTimeout(BaseException):
    """One execution of the code under test did not come back within its wall budget
    (an unbounded loop in the implementation): reported as a violation, never a hang."""


class deadline:
    """`with deadline(30):` raises ExecutionTimeout in this (main) thread after 30 s of *CPU time of this process*
    (an unbounded loop burns CPU; a loaded machine or a stopped process does not count against the code under
    test), and again every second after that in case the code under test swallowed it.  A wall-clock backstop
    at 20x the budget catches an execution that blocks without using CPU."""

    def __init__(self, seconds: float):
        self.seconds = seconds

    def _fire(self, signum, frame):
        raise ExecutionTimeout(f"no return after {self.seconds:g} s")

    def __enter__(self):
        import signal
        self._old_prof = signal.signal(signal.SIGPROF, self._fire)
        self._old = signal.signal(signal.SIGALRM, self._fire)
        signal.setitimer(signal.ITIMER_PROF, self.seconds, 1.0)
        signal.setitimer(signal.ITIMER_REAL, self.seconds * 20, 5.0)
        return self

    def __exit__(self, *a):
        import signal
        signal.setitimer(signal.ITIMER_PROF, 0)
        signal.setitimer(signal.ITIMER_REAL, 0)
        signal.signal(signal.SIGPROF, self._old_prof)
        signal.signal(signal.SIGALRM, self._old)
        return False


EXEC_BUDGET_S = float(os.environ.get("VERIF_EXEC_BUDGET", "30"))


def _limit_worker_memory():
    """A runaway execution must fail inside its worker (MemoryError), not take the machine down."""
    import resource
    try:
        cap = int(os.environ.get("VERIF_WORKER_MEM_GB", "6")) << 30
        resource.setrlimit(resource.RLIMIT_AS, (cap, cap))
    except Exception:  # noqa: BLE001
        pass


class Ctx:
    def __init__(self, prop: str, tier: str, seed: int):
        self.prop = prop
        self.tier = tier
        self.seed = seed
        self.quick = tier == "quick"
        self.workers = int(os.environ.get("VERIF_WORKERS", "0")) or min(16, os.cpu_count() or 1)
        self.t0 = time.time()
        self.counters: dict[str, int] = {}
        self.state_hashes: set[int] = set()
        self.outcome_hashes: set[int] = set()
        self.samples: list = []
        self.violations: list[dict] = []
        self.notes: dict = {}
        self.caps: list[str] = []
        self.assumptions: list[str] = []
        self.exhaustive = True
        self.rule = ""
        self.sections: dict[str, dict] = {}

    # ---- counting -------------------------------------------------------
    def count(self, key: str, n: int = 1):
        self.counters[key] = self.counters.get(key, 0) + n

    def merge(self, part: "Part", section: str | None = None):
        """Merge a worker's partial result."""
        for k, v in part.counters.items():
            self.count(k, v)
            if section:
                sec = self.sections.setdefault(section, {})
                sec[k] = sec.get(k, 0) + v
        self.state_hashes |= part.states
        self.outcome_hashes |= part.outcomes
        for s in part.samples:
            if len(self.samples) < 12:
                self.samples.append(s)
        for v in part.violations:
            self.violation(v["sig"], v["msg"], v["case"])
        for c in part.caps:
            self.cap(c)

    def sample(self, s):
        if len(self.samples) < 12:
            self.samples.append(jsonable(s))

    def cap(self, what: str):
        if what not in self.caps:
            self.caps.append(what)
        self.exhaustive = False

    def violation(self, sig: str, msg: str, case):
        # dedup on signature: keep the first (smallest, since enumeration is
        # simplest-first) case per signature plus a count
        for v in self.violations:
            if v["sig"] == sig:
                v["count"] += 1
                return
        self.violations.append({"sig": sig, "msg": msg, "case": jsonable(case), "count": 1})

    # ---- parallel map ---------------------------------------------------
    def pmap(self, func, jobs, chunksize: int = 1):
        """Run func(job) -> Part over jobs on a fork pool; yields Parts in order.
        A worker that dies (killed, out of memory) breaks the pool -> HarnessError, never a hang."""
        jobs = list(jobs)
        if not jobs:
            return
        if self.workers <= 1 or len(jobs) == 1:
            for j in jobs:
                part = _guard(func)(j)
                if isinstance(part, _WorkerFailure):
                    raise HarnessError(part.tb)
                yield part
            return
        from concurrent.futures.process import BrokenProcessPool

        pool = self._get_pool()
        try:
            for part in pool.map(_guard(func), jobs, chunksize=chunksize):
                if isinstance(part, _WorkerFailure):
                    raise HarnessError(part.tb)
                yield part
        except BrokenProcessPool as e:
            self._pool = None
            raise HarnessError(f"a worker process died ({e}); the run is void")

    def _get_pool(self):
        # one long-lived fork pool per check, created before the master grows
        # (forking a large master per level costs more in page copies than it wins)
        if getattr(self, "_pool", None) is None:
            import gc
            from concurrent.futures import ProcessPoolExecutor

            gc.collect()
            gc.freeze()
            self._pool = ProcessPoolExecutor(self.workers, mp_context=mp.get_context("fork"),
                                             initializer=_limit_worker_memory)
        return self._pool

    def close_pool(self):
        if getattr(self, "_pool", None) is not None:
            self._pool.shutdown(wait=False, cancel_futures=True)
            self._pool = None

    def elapsed(self):
        return time.time() - self.t0


class _WorkerFailure:
    def __init__(self, tb):
        self.tb = tb


class _guard:
    def __init__(self, f):
        self.f = f

    def __call__(self, job):
        try:
            return self.f(job)
        except BaseException:
            return _WorkerFailure(traceback.format_exc())


class Part:
    """Partial result produced by one worker job (picklable)."""

    def __init__(self):
        self.counters: dict[str, int] = {}
        self.states: set[int] = set()
        self.outcomes: set[int] = set()
        self.samples: list = []
        self.violations: list[dict] = []
        self.caps: list[str] = []

    def count(self, k, n=1):
        self.counters[k] = self.counters.get(k, 0) + n

    def state(self, obj):
        self.states.add(h64(obj))

    def outcome(self, obj):
        self.outcomes.add(h64(obj))

    def sample(self, s, limit=3):
        if len(self.samples) < limit:
            self.samples.append(jsonable(s))

    def violation(self, sig, msg, case):
        for v in self.violations:
            if v["sig"] == sig:
                return
        self.violations.append({"sig": sig, "msg": msg, "case": jsonable(case)})

    def cap(self, what):
        if what not in self.caps:
            self.caps.append(what)


# ---- known findings -----------------------------------------------------
def load_findings(prop: str):
    path = os.path.join(VERIF, "known_findings.json")
    if not os.path.exists(path):
        return [], []
    with open(path) as f:
        data = json.load(f)
    findings = [e for e in data.get("findings", []) if e["property"] == prop]
    fixed = [e for e in data.get("fixed", []) if e["property"] == prop]
    return findings, fixed


# ---- finishing ----------------------------------------------------------
def finish(ctx: Ctx, harness_mod) -> int:
    findings, _fixed = load_findings(ctx.prop)
    known = {e["sig"]: e for e in findings}
    out_lines = []
    new = []
    seen_known = []
    for v in ctx.violations:
        if v["sig"] in known:
            seen_known.append(v)
        else:
            new.append(v)

    # every new violation must reproduce twice through the replay path
    confirmed = []
    rdir = os.path.join(VERIF, "replays", ctx.prop)
    for v in new:
        case = unjson(v["case"])
        ok = True
        for _ in range(2):
            try:
                again = harness_mod.replay(case)
            except Exception:
                raise HarnessError("replay crashed:\n" + traceback.format_exc())
            if not any(a["sig"] == v["sig"] for a in again):
                ok = False
        if not ok:
            raise HarnessError(
                f"violation {v['sig']} did not reproduce on replay (nondeterminism?): {v['msg']}"
            )
        if os.environ.get("VERIF_EVIDENCE_DIR"):
            rdir = os.path.join(os.environ["VERIF_EVIDENCE_DIR"], "replays", ctx.prop)
        os.makedirs(rdir, exist_ok=True)
        name = digest((v["sig"], v["case"]))
        path = os.path.join(rdir, name + ".json")
        with open(path, "w") as f:
            json.dump(
                {"property": ctx.prop, "sig": v["sig"], "msg": v["msg"], "case": v["case"]},
                f,
                indent=1,
            )
        confirmed.append((v, path))

    for v in seen_known:
        out_lines.append(
            f"KNOWN-FINDING: property={ctx.prop} {known[v['sig']]['what']} [sig={v['sig']} cases={v['count']}]"
        )
    for v, path in confirmed:
        out_lines.append(f"VIOLATION property={ctx.prop} replay={path}")
        out_lines.append(f"  sig={v['sig']} cases={v['count']}: {v['msg']}")

    write_evidence(ctx, len(confirmed), [v["sig"] for v in seen_known])
    for line in out_lines:
        print(line)
    return 1 if confirmed else 0


def write_evidence(ctx: Ctx, n_viol: int, known_sigs):
    c = ctx.counters
    executions = c.get("executions", 0)
    transitions = c.get("transitions", 0)
    cov = {
        "states": len(ctx.state_hashes),
        "transitions": transitions,
        "traces_validated_against_impl": executions,
        "samples": ctx.samples[:12] or ["<none>"],
        "evaluations": executions,
        "distinct_nontrivial": len(ctx.outcome_hashes),
        "rule": ctx.rule,
        "exhaustive": bool(ctx.exhaustive and not ctx.caps),
        "caps_hit": ctx.caps,
        "counters": dict(sorted(c.items())),
        "sections": ctx.sections,
        "distinct_outcomes": len(ctx.outcome_hashes),
        "known_findings_seen": known_sigs,
        "tree": bind.tree_id(),
        "workers": ctx.workers,
    }
    cov.update(ctx.notes)
    ev = {
        "property_id": ctx.prop,
        "tier": ctx.tier,
        "seed": ctx.seed,
        "level": LEVEL,
        "coverage": cov,
        "assumptions": ctx.assumptions,
        "wall_s": round(ctx.elapsed(), 3),
        "violations": n_viol,
    }
    # mutant runs (tools/seed.py) must not overwrite the evidence of the real tree
    edir = os.environ.get("VERIF_EVIDENCE_DIR") or os.path.join(VERIF, "evidence")
    os.makedirs(edir, exist_ok=True)
    path = os.path.join(edir, ctx.prop + ".json")
    tmp = path + ".tmp"
    with open(tmp, "w") as f:
        json.dump(ev, f, indent=1, sort_keys=True)
    os.replace(tmp, path)
    validate_evidence(path)


def validate_evidence(path: str):
    schema = "/root/.vp/EVIDENCE.schema.json"
    if not os.path.exists(schema) or not os.path.exists("/opt/veriftools/pyvenv/bin/python"):
        return
    code = (
        "import json,sys,jsonschema;"
        "jsonschema.validate(json.load(open(sys.argv[1])),json.load(open(sys.argv[2])))"
    )
    r = subprocess.run(
        ["/opt/veriftools/pyvenv/bin/python", "-c", code, path, schema],
        capture_output=True,
        text=True,
    )
    if r.returncode != 0:
        raise HarnessError("evidence does not validate:\n" + r.stderr[-2000:])
