"""Real aiohttp server side on the in-memory wire (used by C01, C05, C10, C20...)."""
from __future__ import annotations

import asyncio

from aiohttp import web
from aiohttp.web_server import Server

from refs import resp as respref

from .vloop import VLoop
from .wire import SinkProtocol, pair


async def default_handler(request):
    body = await request.read()
    return web.Response(text=f"{request.method} {request.path_qs} {len(body)}")


def _methods(stream: bytes):
    """Request methods as the independent reader sees them (HEAD responses carry no body)."""
    from refs import http1

    return [m.method.decode("latin1").upper() for m in http1.read_requests(stream).messages]


class ServerConn:
    """One server connection: real RequestHandler <-> scripted client sink."""

    def __init__(self, loop: VLoop, handler=default_handler, **server_kwargs):
        self.loop = loop
        self.server = Server(handler, **server_kwargs)
        self._log_methods()
        self.proto = self.server()
        self.client = SinkProtocol()
        self.st, self.ct = pair(loop, self.proto, self.client)
        self.escaped: list[BaseException] = []
        self.client.connection_made(self.ct)
        self.proto.connection_made(self.st)

    def _log_methods(self):
        """Record the method of every request the server starts to handle, in
        order (the response framer needs it: a response to HEAD has no body)."""
        self.methods: list[str] = []
        inner = self.server.request_factory

        def factory(message, *a, **kw):
            self.methods.append(message.method)
            return inner(message, *a, **kw)

        self.server.request_factory = factory

    def send(self, data: bytes):
        """Client writes; bytes stay on the wire until delivered."""
        self.ct.write(data)

    def deliver_to_server(self, n=None):
        try:
            return self.st.deliver(n)
        except BaseException as e:  # noqa: BLE001  an exception escaping data_received
            self.escaped.append(e)
            return b""

    def deliver_to_client(self):
        if self.ct.deliverable():
            self.ct.deliver()
        if self.ct.eof_deliverable():
            self.ct.deliver_eof()

    def settle(self, horizon: float = 0.0, max_passes: int = 5000):
        """Default schedule: run until nothing is ready; deliver server output to
        the client; advance the clock up to `horizon` seconds from now."""
        end = self.loop.time() + horizon
        n = 0
        while n < max_passes:
            n += self.loop.drain(max_passes - n)
            self.deliver_to_client()
            if self.loop.has_ready():
                continue
            w = self.loop.next_timer()
            if w is None or w > end:
                break
            self.loop.advance_to_next_timer()
        return n

    def responses(self, methods=None):
        return respref.frame(bytes(self.client.received), self.methods if methods is None else methods,
                             eof=self.client.eof or self.st.is_closing())


def serve_stream(stream: bytes, cuts=(), handler=default_handler, horizon: float = 30.0, **kw):
    loop = VLoop().hold()
    try:
        conn = ServerConn(loop, handler, **kw)
        conn.settle()
        prev = 0
        for c in list(cuts) + [len(stream)]:
            conn.send(stream[prev:c])
            conn.deliver_to_server()
            conn.settle()
            prev = c
        conn.settle(horizon)
        fr = conn.responses()
        excs = loop.collect_exceptions()
        task = conn.proto._task_handler
        return {
            "responses": [(r.status, r.body, r.complete) for r in fr.responses],
            "malformed": fr.malformed,
            "closed": conn.st.is_closing(),
            "escaped": [type(e).__name__ for e in conn.escaped],
            "loop_exceptions": [repr(c.get("exception") or c.get("message")) for c in excs],
            "handler_alive": task is not None and not task.done(),
            "raw": bytes(conn.client.received),
        }
    finally:
        loop.finish()


class AppConn(ServerConn):
    """Server connection in front of a real web.Application (through AppRunner)."""

    def __init__(self, loop: VLoop, app: web.Application, **runner_kwargs):
        self.loop = loop
        self.app = app
        self.runner = web.AppRunner(app, **runner_kwargs)
        t = loop.create_task(self.runner.setup())
        loop.drain(200)
        t.result()
        self.server = self.runner.server
        self._log_methods()
        self.proto = self.server()
        self.client = SinkProtocol()
        self.st, self.ct = pair(loop, self.proto, self.client)
        self.escaped = []
        self.client.connection_made(self.ct)
        self.proto.connection_made(self.st)


def make_app(handler=default_handler, **app_kwargs):
    app = web.Application(**app_kwargs)
    app.router.add_route("*", "/{tail:.*}", handler)
    return app


def serve_stream_app(stream: bytes, cuts=(), handler=default_handler, horizon: float = 30.0, **kw):
    """Like serve_stream but through web.Application (pre-handler errors become 400)."""
    loop = VLoop().hold()
    try:
        conn = AppConn(loop, make_app(handler), **kw)
        conn.settle()
        prev = 0
        for c in list(cuts) + [len(stream)]:
            conn.send(stream[prev:c])
            conn.deliver_to_server()
            conn.settle()
            prev = c
        conn.settle(horizon)
        fr = conn.responses()
        excs = loop.collect_exceptions()
        task = conn.proto._task_handler
        return {
            "responses": [(r.status, r.body, r.complete) for r in fr.responses],
            "malformed": fr.malformed,
            "closed": conn.st.is_closing(),
            "escaped": [type(e).__name__ for e in conn.escaped],
            "loop_exceptions": [repr(c.get("exception") or c.get("message")) for c in excs],
            "handler_alive": task is not None and not task.done(),
            "raw": bytes(conn.client.received),
        }
    finally:
        loop.finish()
