"""Request-stream corpus shared by C01 / C03 / C10 (DESIGN §2.5).

Everything here is *enumeration*: a grammar of baseline messages rendered as
tagged segments, mutation operators applied at every segment they fit (singly
and in pairs), and token-string BFS for the framing-critical sub-languages.
No randomness; the verdict on each stream comes from refs.http1, not from here.
"""
from __future__ import annotations

import itertools

CRLF = b"\r\n"
NEXT = b"GET /next HTTP/1.1\r\nHost: n\r\n\r\n"


def seg(tag, data):
    return (tag, data)


def render(segs) -> bytes:
    return b"".join(d for _t, d in segs)


def request(method=b"GET", target=b"/", version=b"HTTP/1.1", headers=(), body=None,
            chunks=None, exts=None, trailers=()):
    """Tagged segments of one request.  body: bytes for Content-Length framing;
    chunks: list of bytes for chunked framing (headers must carry the TE line)."""
    s = [seg("method", method), seg("sp", b" "), seg("target", target), seg("sp", b" "),
         seg("version", version), seg("eol", CRLF)]
    for n, v in headers:
        tagn = {b"content-length": "cl", b"transfer-encoding": "te", b"host": "host"}.get(n.lower(), "h")
        s += [seg(tagn + "n", n), seg("colon", b":"), seg("ows", b" "), seg(tagn + "v", v), seg("eol", CRLF)]
    s.append(seg("eoh", CRLF))
    if body is not None:
        s.append(seg("body", body))
    if chunks is not None:
        exts = exts or [b""] * (len(chunks) + 1)
        for c, e in zip(chunks, exts):
            s += [seg("csize", b"%x" % len(c)), seg("cext", e), seg("ceol", CRLF), seg("cdata", c), seg("cdeol", CRLF)]
        s += [seg("csize0", b"0"), seg("cext", exts[len(chunks)] if len(exts) > len(chunks) else b""), seg("ceol", CRLF)]
        for n, v in trailers:
            s += [seg("tn", n), seg("colon", b":"), seg("ows", b" "), seg("tv", v), seg("teol", CRLF)]
        s.append(seg("eot", CRLF))
    return s


H = (b"Host", b"a")
TE = (b"Transfer-Encoding", b"chunked")


def baselines():
    """(name, segments) of valid requests covering the grammar of DESIGN §3 C01."""
    out = []
    add = lambda n, s: out.append((n, s))
    add("get", request(headers=[H]))
    add("get-hdrs", request(headers=[H, (b"Accept", b"*/*"), (b"X-A", b"b c")]))
    add("head", request(method=b"HEAD", headers=[H]))
    add("options-star", request(method=b"OPTIONS", target=b"*", headers=[H]))
    add("absolute", request(target=b"http://a/p?q=1", headers=[H]))
    add("query", request(target=b"/p/q?x=1&y=%20", headers=[H]))
    add("http10", request(version=b"HTTP/1.0", headers=[(b"Connection", b"keep-alive")]))
    add("http10-host", request(version=b"HTTP/1.0", headers=[H, (b"Connection", b"keep-alive")]))
    add("post-cl", request(method=b"POST", headers=[H, (b"Content-Length", b"5")], body=b"hello"))
    add("post-cl0", request(method=b"POST", headers=[H, (b"Content-Length", b"0")], body=b""))
    add("put-cl-crlf", request(method=b"PUT", headers=[H, (b"Content-Length", b"4")], body=b"\r\n\r\n"))
    add("post-cl-looks-like-req", request(method=b"POST", headers=[H, (b"Content-Length", b"28")],
                                          body=b"GET /x HTTP/1.1\r\nHost: e\r\n\r\n"[:28]))
    add("post-chunked", request(method=b"POST", headers=[H, TE], chunks=[b"hello"]))
    add("post-chunked2", request(method=b"POST", headers=[H, TE], chunks=[b"he", b"llo"]))
    add("post-chunked-ext", request(method=b"POST", headers=[H, TE], chunks=[b"hello"], exts=[b";a=b", b";z"]))
    add("post-chunked-trailer", request(method=b"POST", headers=[H, TE], chunks=[b"hi"], trailers=[(b"X-T", b"v")]))
    add("post-chunked-empty", request(method=b"POST", headers=[H, TE], chunks=[]))
    add("post-chunked-crlfdata", request(method=b"POST", headers=[H, TE], chunks=[b"\r\n0\r\n\r\n"]))
    add("head-cl", request(method=b"HEAD", headers=[H, (b"Content-Length", b"5")], body=b"hello"))
    add("head-chunked", request(method=b"HEAD", headers=[H, TE], chunks=[b"hello"]))
    add("get-cl", request(method=b"GET", headers=[H, (b"Content-Length", b"3")], body=b"abc"))
    add("delete-chunked", request(method=b"DELETE", headers=[H, TE], chunks=[b"x"]))
    add("lower-method", request(method=b"get", headers=[H]))
    add("odd-method", request(method=b"M-SEARCH", headers=[H]))
    add("conn-close", request(headers=[H, (b"Connection", b"close")]))
    add("conn-ka", request(headers=[H, (b"Connection", b"keep-alive")]))
    add("te-cased", request(method=b"POST", headers=[H, (b"transfer-encoding", b"Chunked")], chunks=[b"abc"]))
    add("obs-text", request(headers=[H, (b"X-O", b"caf\xc3\xa9 \xff")]))
    add("empty-value", request(headers=[H, (b"X-E", b"")]))
    add("tab-value", request(headers=[H, (b"X-T", b"a\tb")]))
    add("upgrade-ws", request(headers=[H, (b"Upgrade", b"websocket"), (b"Connection", b"Upgrade")]))
    add("upgrade-other", request(headers=[H, (b"Upgrade", b"h2c"), (b"Connection", b"Upgrade")]))
    # an upgrade request that carries a body: the upgrade takes effect only behind the whole body
    add("upgrade-ws-cl", request(method=b"POST", headers=[H, (b"Upgrade", b"websocket"), (b"Connection", b"Upgrade"), (b"Content-Length", b"6")], body=b"abcdef"))
    add("upgrade-ws-chunked", request(method=b"POST", headers=[H, (b"Upgrade", b"websocket"), (b"Connection", b"Upgrade"), TE], chunks=[b"ab", b"cdef"]))
    add("connect", request(method=b"CONNECT", target=b"a:443", headers=[(b"Host", b"a:443")]))
    add("expect", request(method=b"POST", headers=[H, (b"Expect", b"100-continue"), (b"Content-Length", b"2")], body=b"ok"))
    return out


def with_next(segs):
    return segs + [seg("next", NEXT)]


# ---------------------------------------------------------------- mutations
CTLS = [bytes([c]) for c in (0, 1, 8, 9, 10, 11, 12, 13, 27, 31, 127)]
NONASCII = ["٥".encode(), "５".encode(), "K".encode(), b"\xff", b"\xc2\x85"]
# characters for which Python's str methods are more liberal than the ASCII grammar: str.strip()/isspace() accept
# them as white space (NBSP, NEL, EM SPACE, LINE SEPARATOR, IDEOGRAPHIC SPACE), int()/isdigit() as digits
UNISPACE = [b"\xc2\xa0", b"\xc2\x85", b"\xe2\x80\x83", b"\xe2\x80\xa8", b"\xe3\x80\x80"]
UNIDIGIT = [b"\xd9\xa5", b"\xef\xbc\x95", b"\xdf\x85", b"\xc2\xb2"]


def _insertions(data: bytes, pieces):
    """data with each piece inserted at start, middle and end."""
    pos = sorted({0, len(data) // 2, len(data)})
    for p in pos:
        for x in pieces:
            yield data[:p] + x + data[p:]


def _variants(tag: str, data: bytes):
    """Replacement values for one segment, by tag (one per rejection class the
    property names, plus neighbours that must stay accepted)."""
    if tag in ("eol", "ceol", "cdeol", "teol", "eoh", "eot"):
        yield from (b"\n", b"\r", b"\r\r\n", b"\n\r", b"", b"\r\n\r\n" if tag not in ("eoh", "eot") else b"\n\n",
                    b" \r\n", b"\r\n ", b"\r\n\t")
    elif tag == "sp":
        yield from (b"  ", b"\t", b"", b"\r", b" \t", b"\x0b", b"\x0c")
    elif tag == "colon":
        yield from (b" :", b"\t:", b"", b"::", b": :", b"\r:", b"\x00:")
    elif tag == "ows":
        yield from (b"", b"\t", b"  \t ", b"\x0b", b"\r", b"\n ", b"\r\n ", b"\x00")
    elif tag == "method":
        yield from (b"", b"G ET", b"G\tET", b"GET\x00", b"G(T", b"GET:", b"G\xc3\x89T", b"\x7fGET", b"get", b"G@T", b"GET/")
    elif tag == "target":
        yield from (b"", b"/ /", b"/\t", b"/\x00", b"/\r", b"*", b"a:80", b"//", b"/%", b"/\xff", b"http://", b"/?#", b"/#f")
    elif tag == "version":
        yield from (b"", b"HTTP/1.1 ", b" HTTP/1.1", b"HTTP/1.10", b"HTTP/11", b"http/1.1", b"HTTP/1.", b"HTTP/.1",
                    b"HTTP/1.1\t", b"HTTP/1,1", b"HTTP/\xd9\xa1.1", b"HTTP/2.0", b"HTTP/0.9", b"HTTP/1.1\r", b"HTTP/1.1\x00",
                    b"HTTP/1.0", b"HTTP/1.1")
    elif tag in ("hn", "cln", "ten", "hostn", "tn"):
        yield from _insertions(data, [b" ", b"\t", b"\x00", b"\r", b"\x0b", b"(", b"\xc3\xa9", b":", b"\x7f"])
        yield b""
    elif tag in ("hv", "hostv", "tv"):
        yield from _insertions(data, CTLS)
        yield from (b"", data + b" ", b" " + data, data + b"\t\t")
        yield from _insertions(data, UNISPACE[:2])
    elif tag == "clv":
        n = data
        yield from (b"+" + n, b"-" + n, n + b" " + n, n + b"," + n, n + b", " + n, b"0x" + n, n + b".0", b"",
                    n + b"e0", b"0" + n, b"00" + n, n + b"\t", b"\t" + n, n + b"\x00", n + b"\x0b", n + b";",
                    NONASCII[0], NONASCII[1], b"1" + NONASCII[0], n + b"_", b"\xd9\xa0" + n,
                    b"9" * 25, b"1" + n, b"0", n[:-1] if len(n) > 1 else b"6")
        yield from _insertions(n, UNISPACE + UNIDIGIT)
    elif tag == "tev":
        yield from (b"chunked, chunked", b"chunked,chunked", b"gzip", b"identity", b"chunked, gzip", b"chunked, identity",
                    b"xchunked", b"chunkedx", b"CHUNKED", b"chun\xe2\x84\xaaed", b"chunked\x00", b"chunk ed", b'"chunked"',
                    b",chunked", b"chunked,", b"gzip, chunked", b"identity, chunked", b"chunked;q=1", b"", b"chunked ,chunked",
                    b"chunked\t", b"chunked\x0b", b"gzip,chunked , chunked", b"chunked-", b"\xef\xbd\x83hunked", b"chunked\r")
        yield from _insertions(b"chunked", UNISPACE)
        for u in UNISPACE:
            yield b"gzip," + u + b"chunked"
            yield b"gzip, chunked" + u
    elif tag in ("csize", "csize0"):
        n = data
        yield from (b"+" + n, b"-" + n, b"0x" + n, b" " + n, n + b" ", n + b"\t", b"", n + b"g", b"000" + n, NONASCII[1],
                    b"0" * 20 + n, n + b"\x00", n + b"\r", n + b"_", b"\t" + n, n + b".", b"1" + n, b"f" * 17,
                    n + b"\x0b", b"0", b"1")
        yield from _insertions(n, UNISPACE + UNIDIGIT)
    elif tag == "cext":
        yield from (b";a", b";a=b", b';a="q q"', b';a="x\ny"', b";\x00", b";a\rb", b";a\nb", b";", b" ;a", b";a=b;c=d",
                    b";a=\xff", b";\x7f", b'; a="\\""', b";a\r", b"\t;a", b";;", b";a= b")
    elif tag == "cdata":
        yield from (data + b"x", data[:-1], b"")
    elif tag == "body":
        yield from (data + b"x", data[:-1])


def single_mutations(segs):
    """Every variant at every segment: yields (descr, stream_segments)."""
    for i, (tag, data) in enumerate(segs):
        if tag == "next":
            continue
        for v in _variants(tag, data):
            if v == data:
                continue
            yield (i, tag, v), segs[:i] + [(tag, v)] + segs[i + 1:]


STRUCT_LINES = [
    b" folded", b"\tfolded", b"NoColon", b": novalue", b"Content-Length: 5", b"Content-Length: 0", b"Content-Length: 6",
    b"Transfer-Encoding: chunked", b"Transfer-Encoding: gzip", b"Host: b", b"Host: a", b"Connection: close",
    b"X-A: 1", b"X-A : 1", b"Content-Length : 5", b"Transfer-Encoding : chunked", b"content-length: 5",
    b"Content_Length: 5", b"Content-Length\x00: 5", b" Content-Length: 5", b"Transfer-Encoding: chunked, chunked",
    b"Transfer-Encoding:\x0bchunked", b"Content-Type: a", b"Upgrade: websocket", b"Connection: upgrade",
    b"Transfer-Encoding:", b"Transfer-Encoding: \t", b"Transfer-Encoding: ,", b"Content-Length:", b"Content-Length: ,",
]


def structural_mutations(segs):
    """Insert one extra line after every head line / trailer line; delete each header."""
    idx = [i for i, (t, _d) in enumerate(segs) if t in ("eol", "teol")] + \
          [i for i, (t, _d) in enumerate(segs) if t == "ceol" and segs[i - 2][0] == "csize0"]
    for i in idx:
        for line in STRUCT_LINES:
            yield ("ins", i, line), segs[:i + 1] + [seg("xline", line), seg("eol", CRLF)] + segs[i + 1:]
    # delete whole header lines
    i = 0
    while i < len(segs):
        if segs[i][0].endswith("n") and i + 4 < len(segs) and segs[i + 1][0] == "colon":
            yield ("del", i), segs[:i] + segs[i + 5:]
            # duplicate it
            yield ("dup", i), segs[:i + 5] + segs[i:i + 5] + segs[i + 5:]
            i += 5
        else:
            i += 1


def all_single(segs):
    yield from single_mutations(segs)
    yield from structural_mutations(segs)


def pair_mutations(segs):
    """Two simultaneous segment mutations at different segments (thorough)."""
    muts = list(single_mutations(segs))
    for (d1, s1), (d2, _s2) in itertools.combinations(muts, 2):
        i1, t1, v1 = d1
        i2, t2, v2 = d2
        if i1 == i2:
            continue
        s = list(s1)
        s[i2] = (t2, v2)
        yield (d1, d2), s


BYTE_ALPHABET = [bytes([c]) for c in b"\x00\t\n\x0b\r :;,+-0a5/\\\x7f\xff\"="]


def byte_substitutions(stream: bytes, upto: int | None = None):
    """Every single-byte substitution from the 20-byte alphabet at every offset."""
    n = len(stream) if upto is None else min(upto, len(stream))
    for i in range(n):
        for b in BYTE_ALPHABET:
            if stream[i:i + 1] != b:
                yield (i, b), stream[:i] + b + stream[i + 1:]


def byte_insertions(stream: bytes, upto: int | None = None):
    n = len(stream) if upto is None else min(upto, len(stream))
    for i in range(n + 1):
        for b in (b"\n", b"\r", b" ", b"\x00", b":", b"0"):
            yield (i, b), stream[:i] + b + stream[i:]


def byte_deletions(stream: bytes, upto: int | None = None):
    n = len(stream) if upto is None else min(upto, len(stream))
    for i in range(n):
        yield (i,), stream[:i] + stream[i + 1:]


# ---------------------------------------------------------------- token BFS
def token_strings(alphabet, depth):
    for d in range(depth + 1):
        for combo in itertools.product(alphabet, repeat=d):
            yield b"".join(combo)


SUBLANG = {
    # name: (alphabet, envelope(prefix, suffix))
    "cl-value": ([b"5", b"0", b"+", b"-", b" ", b"\t", b",", b"x", b"\xd9\xa5", b".", b"\x0b", b"\xc2\xa0"],
                 (b"POST / HTTP/1.1\r\nHost: a\r\nContent-Length:", b"\r\n\r\nhello" + NEXT)),
    "te-value": ([b"chunked", b"gzip", b",", b" ", b"\t", b";", b"C", b"x", b"\xe2\x84\xaa", b"identity", b"\x0b", b"\xc2\xa0"],
                 (b"POST / HTTP/1.1\r\nHost: a\r\nTransfer-Encoding:", b"\r\n\r\n5\r\nhello\r\n0\r\n\r\n" + NEXT)),
    "field-line": ([b"X", b"-", b":", b" ", b"\t", b"v", b"\r\n", b"\n", b"\r", b"\x00", b"Content-Length", b"5"],
                   (b"POST / HTTP/1.1\r\nHost: a\r\n", b"\r\n\r\n" + NEXT)),
    "chunk-body": ([b"5", b"0", b"\r\n", b"\n", b"hello", b";", b"a", b" ", b"\r", b"X:y", b"+", b"\xe2\x80\x83"],
                   (b"POST / HTTP/1.1\r\nHost: a\r\nTransfer-Encoding: chunked\r\n\r\n", b"\r\n\r\n" + NEXT)),
    "request-line": ([b"GET", b" ", b"/", b"HTTP/1.1", b"\t", b"*", b"\r", b"HTTP/1.0", b"a", b":", b"\x00"],
                     (b"", b"\r\nHost: a\r\n\r\n" + NEXT)),
}


def sublang_streams(name, depth):
    alphabet, (pre, suf) = SUBLANG[name]
    for s in token_strings(alphabet, depth):
        yield s, pre + s + suf


# ---------------------------------------------------------------- limit approach
def limit_streams(mls: int, mfs: int, mh: int):
    """Requests whose start line / field / chunk-size line / extension / trailer
    is one byte below, at, and one byte above the limit that applies to it, and
    whose field / trailer count is max-1 / max / max+1.  Yields (label, stream)."""
    def pad(prefix: bytes, total: int, fill=b"x"):
        return prefix + fill * max(0, total - len(prefix))

    for name, lim in (("line", mls), ("field", mfs)):
        for d in (-1, 0, 1):
            L = lim + d
            if L < 16:
                continue
            # request line of exactly L bytes
            rl = b"GET /" + b"p" * (L - len(b"GET / HTTP/1.1")) + b" HTTP/1.1"
            yield (f"reqline@{name}{d:+d}", rl + b"\r\nHost: a\r\n\r\n" + NEXT)
            # the same start line as the second message of one read: behind a body-less request and behind a body
            yield (f"reqline2@{name}{d:+d}", b"GET /p HTTP/1.1\r\nHost: p\r\n\r\n" + rl + b"\r\nHost: a\r\n\r\n" + NEXT)
            yield (f"reqline3@{name}{d:+d}", b"POST /p HTTP/1.1\r\nHost: p\r\nContent-Length: 2\r\n\r\nok" + rl + b"\r\nHost: a\r\n\r\n" + NEXT)
            # field line of exactly L bytes (name: value)
            fl = pad(b"X-Long: ", L)
            yield (f"field@{name}{d:+d}", b"GET / HTTP/1.1\r\nHost: a\r\n" + fl + b"\r\n\r\n" + NEXT)
            # long field *name*
            fn = pad(b"X", L - 3) + b": v"
            yield (f"fieldname@{name}{d:+d}", b"GET / HTTP/1.1\r\nHost: a\r\n" + fn + b"\r\n\r\n" + NEXT)
            # first field line (directly after the start line)
            yield (f"firstfield@{name}{d:+d}", b"GET / HTTP/1.1\r\n" + fl + b"\r\nHost: a\r\n\r\n" + NEXT)
            # chunk-size line with extension of exactly L bytes
            cs = pad(b"5;e=", L)
            yield (f"chunkext@{name}{d:+d}", b"POST / HTTP/1.1\r\nHost: a\r\nTransfer-Encoding: chunked\r\n\r\n" + cs
                   + b"\r\nhello\r\n0\r\n\r\n" + NEXT)
            # chunk size made of leading zeros
            cz = b"0" * (L - 1) + b"5"
            yield (f"chunksize@{name}{d:+d}", b"POST / HTTP/1.1\r\nHost: a\r\nTransfer-Encoding: chunked\r\n\r\n" + cz
                   + b"\r\nhello\r\n0\r\n\r\n" + NEXT)
            # last-chunk line with extension
            lz = pad(b"0;e=", L)
            yield (f"lastchunkext@{name}{d:+d}", b"POST / HTTP/1.1\r\nHost: a\r\nTransfer-Encoding: chunked\r\n\r\n5\r\nhello\r\n"
                   + lz + b"\r\n\r\n" + NEXT)
            # trailer field of exactly L bytes
            tf = pad(b"X-T: ", L)
            yield (f"trailer@{name}{d:+d}", b"POST / HTTP/1.1\r\nHost: a\r\nTransfer-Encoding: chunked\r\n\r\n5\r\nhello\r\n0\r\n"
                   + tf + b"\r\n\r\n" + NEXT)
    for d in (-2, -1, 0, 1):
        n = mh + d
        if n < 1:
            continue
        hdrs = b"".join(b"X-%d: v\r\n" % i for i in range(n - 1))
        yield (f"nfields={n}", b"GET / HTTP/1.1\r\nHost: a\r\n" + hdrs + b"\r\n" + NEXT)
        trs = b"".join(b"T-%d: v\r\n" % i for i in range(n))
        yield (f"ntrailers={n}", b"POST / HTTP/1.1\r\nHost: a\r\nTransfer-Encoding: chunked\r\n\r\n1\r\nx\r\n0\r\n" + trs + b"\r\n" + NEXT)
        yield (f"ntrailers+fields={n}", b"POST / HTTP/1.1\r\nHost: a\r\nTransfer-Encoding: chunked\r\n" + b"X-A: 1\r\nX-B: 2\r\n\r\n1\r\nx\r\n0\r\n"
               + trs + b"\r\n" + NEXT)


def compressed_request_streams():
    """Requests with Content-Encoding bodies (decoded by the request parser): only for the
    segmentation-independence check, where the oracle is the un-cut run."""
    import gzip
    import zlib
    co = zlib.compressobj(wbits=-15)
    raw = co.compress(b"hello hello hello") + co.flush()
    gz = gzip.compress(b"hello", mtime=0)
    pre = b"POST /c HTTP/1.1\r\nHost: a\r\n"
    for nm, enc, blob in (("rawdeflate", b"deflate", raw), ("zlibdeflate", b"deflate", zlib.compress(b"hello hello")), ("gzip", b"gzip", gz)):
        yield ("creq", nm, "cl"), pre + b"Content-Encoding: " + enc + b"\r\nContent-Length: %d\r\n\r\n" % len(blob) + blob + NEXT
        yield ("creq", nm, "chunked1"), (pre + b"Content-Encoding: " + enc + b"\r\nTransfer-Encoding: chunked\r\n\r\n%x\r\n" % len(blob)
                                         + blob + b"\r\n0\r\n\r\n" + NEXT)
        h = max(1, len(blob) // 2)
        yield ("creq", nm, "chunked2"), (pre + b"Content-Encoding: " + enc + b"\r\nTransfer-Encoding: chunked\r\n\r\n%x\r\n" % h + blob[:h]
                                         + b"\r\n%x\r\n" % (len(blob) - h) + blob[h:] + b"\r\n0\r\n\r\n" + NEXT)
        # a chunk that decodes to nothing: the checksum/trailer of the compressed stream alone, and its header alone
        yield ("creq", nm, "chunked-tail4"), (pre + b"Content-Encoding: " + enc + b"\r\nTransfer-Encoding: chunked\r\n\r\n%x\r\n" % (len(blob) - 4)
                                              + blob[:-4] + b"\r\n4\r\n" + blob[-4:] + b"\r\n0\r\n\r\n" + NEXT)
        yield ("creq", nm, "chunked-head2"), (pre + b"Content-Encoding: " + enc + b"\r\nTransfer-Encoding: chunked\r\n\r\n2\r\n"
                                              + blob[:2] + b"\r\n%x\r\n" % (len(blob) - 2) + blob[2:] + b"\r\n0\r\n\r\n" + NEXT)
    yield ("creq", "rawdeflate", "truncated"), pre + b"Content-Encoding: deflate\r\nContent-Length: %d\r\n\r\n" % (len(raw) - 3) + raw[:-3] + NEXT
    yield ("creq", "gzip", "garbage"), pre + b"Content-Encoding: gzip\r\nContent-Length: 6\r\n\r\nnotgz!" + NEXT


# ---------------------------------------------------------------- responses
def response_streams():
    """(label, stream, parser kwargs) for the response parser."""
    R = []
    add = lambda n, s, **kw: R.append((n, s, kw))
    ok = b"HTTP/1.1 200 OK\r\n"
    add("cl", ok + b"Content-Length: 5\r\n\r\nhello")
    add("cl-pipelined", ok + b"Content-Length: 2\r\n\r\nhi" + ok + b"Content-Length: 3\r\n\r\nabc")
    add("chunked", ok + b"Transfer-Encoding: chunked\r\n\r\n5\r\nhello\r\n3;x=y\r\nabc\r\n0\r\nX-T: v\r\n\r\n")
    add("chunked-lf", ok.replace(b"\r\n", b"\n") + b"Transfer-Encoding: chunked\n\n5\nhello\n0\n\n")
    add("chunked-ws", ok + b"Transfer-Encoding: chunked\r\n\r\n 5 \r\nhello\r\n0\r\n\r\n")
    add("lf-only", b"HTTP/1.1 200 OK\nContent-Length: 2\n\nhi")
    add("mixed-eol", b"HTTP/1.1 200 OK\r\nA: b\nContent-Length: 2\r\n\nhi")
    add("until-eof", ok + b"\r\nbody until close", read_until_eof=True)
    add("until-eof-10", b"HTTP/1.0 200 OK\r\n\r\nbody", read_until_eof=True)
    add("no-reason", b"HTTP/1.1 204\r\n\r\n")
    add("100-then-200", b"HTTP/1.1 100 Continue\r\n\r\n" + ok + b"Content-Length: 1\r\n\r\nx")
    add("103-then-200", b"HTTP/1.1 103 Early Hints\r\nLink: </a>\r\n\r\n" + ok + b"Content-Length: 1\r\n\r\nx")
    add("204-with-cl", b"HTTP/1.1 204 No Content\r\nContent-Length: 5\r\n\r\n" + ok + b"Content-Length: 1\r\n\r\nx")
    add("304", b"HTTP/1.1 304 Not Modified\r\nETag: \"a\"\r\n\r\n" + ok + b"Content-Length: 1\r\n\r\nx")
    add("head-resp", ok + b"Content-Length: 5\r\n\r\n" + ok + b"Content-Length: 1\r\n\r\nx", method="HEAD")
    add("folded", ok + b"X-F: a\r\n b\r\nContent-Length: 1\r\n\r\nx")
    add("dup-cl", ok + b"Content-Length: 1\r\nContent-Length: 1\r\n\r\nx")
    add("te+cl", ok + b"Transfer-Encoding: chunked\r\nContent-Length: 1\r\n\r\n1\r\nx\r\n0\r\n\r\n")
    add("bad-status", b"HTTP/1.1 20 OK\r\n\r\n")
    add("bad-version", b"HTTP/1.1x 200 OK\r\n\r\n")
    add("ctl-in-value", ok + b"X: a\x00b\r\nContent-Length: 0\r\n\r\n")
    add("bad-chunk", ok + b"Transfer-Encoding: chunked\r\n\r\nzz\r\nhello\r\n0\r\n\r\n")
    add("chunk-crcrlf", ok + b"Transfer-Encoding: chunked\r\n\r\n5\r\nhello\r\r\n0\r\n\r\n")
    add("chunk-cr-only", ok + b"Transfer-Encoding: chunked\r\n\r\n5\r\nhello\r0\r\n\r\n")
    add("chunk-lfcr", ok + b"Transfer-Encoding: chunked\r\n\r\n5\r\nhello\n\r0\r\n\r\n")
    add("chunk-nocrlf", ok + b"Transfer-Encoding: chunked\r\n\r\n5\r\nhelloXX0\r\n\r\n")
    import gzip
    import zlib
    gz = gzip.compress(b"hello", mtime=0)
    add("gzip", ok + b"Content-Encoding: gzip\r\nContent-Length: %d\r\n\r\n" % len(gz) + gz)
    zl = zlib.compress(b"hello" * 40)
    add("deflate-bigger", ok + b"Content-Encoding: deflate\r\nContent-Length: %d\r\n\r\n" % len(zl) + zl)
    add("deflate-chunked", ok + b"Content-Encoding: deflate\r\nTransfer-Encoding: chunked\r\n\r\n"
        b"6\r\n" + bytes.fromhex("789ccb48cdc9") + b"\r\n7\r\n" + bytes.fromhex("c9070006" "2c0215")[:7] + b"\r\n0\r\n\r\n")
    # raw deflate (no zlib header: the decoder sniffs the first body byte), zlib and gzip bodies, length- and chunk-framed
    co = zlib.compressobj(wbits=-15)
    raw = co.compress(b"hello hello hello") + co.flush()
    for nm, enc, blob in (("rawdeflate", b"deflate", raw), ("zlibdeflate", b"deflate", zlib.compress(b"hello hello")), ("gzip2", b"gzip", gz)):
        add(nm + "-cl", ok + b"Content-Encoding: " + enc + b"\r\nContent-Length: %d\r\n\r\n" % len(blob) + blob)
        add(nm + "-chunked1", ok + b"Content-Encoding: " + enc + b"\r\nTransfer-Encoding: chunked\r\n\r\n%x\r\n" % len(blob) + blob + b"\r\n0\r\n\r\n")
        h = max(1, len(blob) // 2)
        add(nm + "-chunked2", ok + b"Content-Encoding: " + enc + b"\r\nTransfer-Encoding: chunked\r\n\r\n%x\r\n" % h + blob[:h]
            + b"\r\n%x;e=1\r\n" % (len(blob) - h) + blob[h:] + b"\r\n0\r\nX-T: v\r\n\r\n")
        add(nm + "-eof", ok + b"Content-Encoding: " + enc + b"\r\n\r\n" + blob, read_until_eof=True)
    add("rawdeflate-truncated", ok + b"Content-Encoding: deflate\r\nContent-Length: %d\r\n\r\n" % (len(raw) - 3) + raw[:-3])
    add("gzip-garbage", ok + b"Content-Encoding: gzip\r\nContent-Length: 6\r\n\r\nnotgz!")
    add("upgrade", b"HTTP/1.1 101 Switching Protocols\r\nUpgrade: websocket\r\nConnection: upgrade\r\n\r\n\x81\x02hi")
    add("conn-close-extra", ok + b"Connection: close\r\nContent-Length: 1\r\n\r\nxHTTP/1.1 200 OK\r\n\r\n")
    add("long-reason", b"HTTP/1.1 200 " + b"r" * 70 + b"\r\nContent-Length: 0\r\n\r\n")
    add("empty-lines-first", b"\r\n\r\n" + ok + b"Content-Length: 0\r\n\r\n")
    return R


def response_limit_streams(mls: int, mfs: int):
    """Responses (lax line endings) whose status line / field / trailer is one byte below, at and above its limit,
    ended by CRLF, a bare LF, or CR CR LF."""
    for d in (-1, 0, 1):
        for eol_name, eol in (("crlf", b"\r\n"), ("lf", b"\n"), ("crcrlf", b"\r\r\n")):
            L = mls + d
            if L >= 16:
                sl = b"HTTP/1.1 200 " + b"r" * (L - len(b"HTTP/1.1 200 "))
                yield (f"resp-statusline{d:+d}-{eol_name}", sl + eol + b"Content-Length: 1\r\n\r\nx")
            L = mfs + d
            if L >= 16:
                fl = b"X-Long: " + b"v" * (L - 8)
                yield (f"resp-field{d:+d}-{eol_name}", b"HTTP/1.1 200 OK\r\n" + fl + eol + b"Content-Length: 1\r\n\r\nx")
                yield (f"resp-trailer{d:+d}-{eol_name}", b"HTTP/1.1 200 OK\r\nTransfer-Encoding: chunked\r\n\r\n1\r\nx\r\n0\r\n"
                       + b"X-T: " + b"v" * (L - 5) + eol + b"\r\n")
    # stray CR behind a bare-LF line ending
    yield ("resp-lastchunk-lf-cr", b"HTTP/1.1 200 OK\r\nTransfer-Encoding: chunked\r\n\r\n3\r\nabc\r\n0\n\rT: v\r\n\r\n")
    yield ("resp-field-lf-cr", b"HTTP/1.1 200 OK\n\rX: v\r\nContent-Length: 1\r\n\r\nx")


# ---------------------------------------------------------------- hostile targets
HOSTILE_TARGETS = [
    b"http://[::1/", b"http://h:abc/", b"http://h:99999999/", b"http://h:65536/", b"http://h:-1/", b"http://[/",
    b"http://]/", b"http://[::1]x/", b"http://[::1]:x/", b"http://[v1.x]/", b"http://[:::]/", b"http://%zz/",
    b"http://a%/", b"http:///", b"http://@/", b"http://:80/", b"http://:/", b"http://\xff/", b"http://h\x00/",
    b"http://h/\xff", b"http://h:8 0/", b"http://h:/", b"http://h:0x50/", b"http://h:\xd9\xa8\xd9\xa0/", b"http://[::1]:\xd9\xa8/",
    b"https://[fe80::1%25eth0]/", b"http://[fe80::1%eth0]/", b"//[", b"//h:abc/", b"http:/", b"http:", b"http://", b"h:abc",
    b"?", b"#", b"a", b"a:b", b"[::1", b"::", b":", b"h:99999999", b"%", b"/%", b"/%zz", b"/\xff\xfe", b"/?%", b"/#%",
    b"http://h/%", b"ws://h/", b"file:///etc", b"mailto:a@b", b"urn:x", b"http://xn--\xff/", b"http://a..b/", b"http://.a/",
    b"http://" + b"a" * 300 + b"/", b"http://a." * 40 + b"b/", b"http://1.2.3.4.5/", b"http://0x7f.1/", b"http://[1.2.3.4]/",
    # userinfo in front of an empty or bracketed host
    b"http://[::1]@/", b"http://[]@/", b"http://[::1]@h/", b"http://u@[::1]/", b"http://u:p@/", b"http://u@:80/", b"http://@[::1]/",
    b"http://[::1]@:80/", b"//[::1]@/", b"http://[@/", b"http://]@/", b"http://u@[/", b"http://[::1]:80@/",
]


def hostile_target_streams():
    for t in HOSTILE_TARGETS:
        for method in (b"GET", b"CONNECT", b"OPTIONS"):
            yield (method, t), method + b" " + t + b" HTTP/1.1\r\nHost: a\r\n\r\n" + NEXT


HOSTILE_HEADERS = [b"Expect", b"Host", b"Content-Type", b"Connection", b"Upgrade", b"Content-Encoding", b"Accept-Encoding", b"Cookie",
                   b"If-Modified-Since", b"Range", b"Forwarded", b"X-Forwarded-For", b"Sec-WebSocket-Key", b"Authorization", b"Keep-Alive"]
HOSTILE_VALUES = [b"\xff", b"100-continue\xff", b"\xed\xa0\x80", b"a:b", b"[", b"\x80=\x81; \xfe", b"bytes=\xff-", b"=?utf-8?b?\xff?="]


def hostile_header_streams():
    """Requests the parser accepts whose interpreted header fields carry bytes that are not UTF-8 (they reach the
    application as lone surrogates) or are otherwise not what the field's syntax allows."""
    for h in HOSTILE_HEADERS:
        for v in HOSTILE_VALUES:
            host = b"" if h == b"Host" else b"Host: a\r\n"
            yield (h, v, "get"), b"GET / HTTP/1.1\r\n" + host + h + b": " + v + b"\r\n\r\n" + NEXT
            yield (h, v, "post"), b"POST / HTTP/1.1\r\n" + host + h + b": " + v + b"\r\nContent-Length: 3\r\n\r\nabc" + NEXT


def hostile_number_streams():
    """Numeric fields at the edge of what the conversion functions accept (int() refuses > 4300 digits)."""
    H = b"POST / HTTP/1.1\r\nHost: a\r\n"
    ok = b"HTTP/1.1 200 OK\r\n"
    for n in (4300, 4301, 8000):
        yield f"cl-{n}-digits", H + b"Content-Length: " + b"1" * n + b"\r\n\r\n"
        yield f"cl-{n}-zeros", H + b"Content-Length: " + b"0" * n + b"\r\n\r\n" + NEXT
        yield f"chunksize-{n}-hex", H + b"Transfer-Encoding: chunked\r\n\r\n" + b"f" * n + b"\r\n"
        yield f"chunksize-{n}-zeros", H + b"Transfer-Encoding: chunked\r\n\r\n" + b"0" * n + b"\r\n\r\n" + NEXT
        yield f"resp-cl-{n}-digits", ok + b"Content-Length: " + b"1" * n + b"\r\n\r\n"
        yield f"resp-chunksize-{n}-hex", ok + b"Transfer-Encoding: chunked\r\n\r\n" + b"f" * n + b"\r\n"
    for bad in (b"\xff", b"5\xff", b"\xef\xbc\x95", b"5;\xff=\xfe", b"\xc2\xa0" + b"5"):
        yield f"chunksize-nonascii-{bad.hex()}", H + b"Transfer-Encoding: chunked\r\n\r\n" + bad + b"\r\nhello\r\n0\r\n\r\n"
    yield "trailer-nonascii", H + b"Transfer-Encoding: chunked\r\n\r\n1\r\nx\r\n0\r\nX-\xff: v\r\n\r\n"
    yield "trailer-too-long", H + b"Transfer-Encoding: chunked\r\n\r\n1\r\nx\r\n0\r\nX-T: " + b"v" * 9000 + b"\r\n\r\n"
    yield "chunkext-too-long", H + b"Transfer-Encoding: chunked\r\n\r\n1;" + b"e" * 9000 + b"\r\nx\r\n0\r\n\r\n"
    yield "header-nonascii-name", b"GET / HTTP/1.1\r\nHost: a\r\nX-\xff\xfe: v\r\n\r\n"
    yield "method-nonascii", b"G\xffT / HTTP/1.1\r\nHost: a\r\n\r\n"
    yield "version-nonascii", b"GET / HTTP/1.\xff\r\nHost: a\r\n\r\n"


def folded_streams(mfs: int):
    """Responses (the lax parser accepts obsolete line folding) whose field or trailer is folded over several
    continuation lines: every line fits together with the first one, the field as a whole is `expect`ed to be
    rejected (well above max_field_size) or accepted (well below).  (label, stream, expect)"""
    ok = b"HTTP/1.1 200 OK\r\n"
    for nlines in (2, 3, 5):
        for total, expect in ((mfs * 2, "reject"), (mfs // 2, "accept")):
            piece = max(1, total // (nlines + 1))
            if 2 * piece + 8 > mfs:
                continue            # a single continuation must still fit next to the first line
            first = b"X-F: " + b"a" * piece
            conts = b"".join(b"\r\n " + bytes([98 + i]) * piece for i in range(nlines))
            yield (f"resp-folded{nlines}-{expect}", ok + first + conts + b"\r\nContent-Length: 1\r\n\r\nx", expect)
            yield (f"resp-trailer-folded{nlines}-{expect}",
                   ok + b"Transfer-Encoding: chunked\r\n\r\n1\r\nx\r\n0\r\n" + first + conts + b"\r\n\r\n", expect)


def unterminated_streams(mls: int, mfs: int):
    """A line that never ends, several times longer than its limit, in every syntactic position:
    (label, stream, piece size).  Must be rejected while it grows, not buffered."""
    H = b"POST / HTTP/1.1\r\nHost: a\r\n"
    C = H + b"Transfer-Encoding: chunked\r\n\r\n"
    ok = b"HTTP/1.1 200 OK\r\n"
    big = 4 * max(mls, mfs)
    step = max(3, min(mls, mfs) // 3)
    yield "reqline", b"GET /" + b"a" * big, step
    yield "fieldname", H + b"X" * big, step
    yield "fieldvalue", H + b"X-A: " + b"v" * big, step
    yield "chunksize", C + b"0" * big, step
    yield "chunkext", C + b"5;" + b"e" * big, step
    yield "chunkext-later", C + b"1\r\nx\r\n5;" + b"e" * big, step
    yield "trailer-name", C + b"1\r\nx\r\n0\r\n" + b"T" * big, step
    yield "trailer-value", C + b"1\r\nx\r\n0\r\nX-T: " + b"v" * big, step
    yield "trailer-second", C + b"0\r\nA: b\r\nX-T: " + b"v" * big, step
    yield "resp-reason", b"HTTP/1.1 200 " + b"r" * big, step
    yield "resp-fieldvalue", ok + b"X-A: " + b"v" * big, step
    yield "resp-chunkext", ok + b"Transfer-Encoding: chunked\r\n\r\n5;" + b"e" * big, step
    yield "resp-trailer-value", ok + b"Transfer-Encoding: chunked\r\n\r\n0\r\nX-T: " + b"v" * big, step
    # a line that is short but followed by carriage returns only (the lax response parser drops CRs from a line)
    yield "resp-reason-cr", b"HTTP/1.1 200 OK" + b"\r" * big, step
    yield "resp-cr-only", b"\r" * big, step
    yield "resp-fieldvalue-cr", ok + b"X-A: v" + b"\r" * big, step
    yield "resp-chunksize-cr", ok + b"Transfer-Encoding: chunked\r\n\r\n5" + b"\r" * big, step
    yield "resp-trailer-cr", ok + b"Transfer-Encoding: chunked\r\n\r\n0\r\nX-T: v" + b"\r" * big, step
    yield "reqline-cr", b"GET / HTTP/1.1" + b"\r" * big, step
    yield "chunksize-cr", C + b"5" + b"\r" * big, step
