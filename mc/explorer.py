"""Deviation-bounded stateless exploration of real asyncio code (DESIGN §2.1, §2.3).

A *scenario* is built fresh for every execution on a fresh VLoop:

    scen = factory(case, loop)
    scen.menu()     -> [(label, fire)]  enabled environment events, stable order,
                       the scenario's preferred ("script") order first
    scen.faults()   -> [(label, fire)]  enabled events that are never taken by
                       default (cancel, drop, close, fail): deviations only
    scen.monitor()  -> called after every pass (appends to scen.problems)
    scen.quiescent()-> optional; called whenever nothing is ready and no event is
                       enabled (before the clock is advanced or the run ends)
    scen.final()    -> terminal oracle, returns an observation (hashable/jsonable)
    scen.state()    -> optional abstract state for pruning (None = no pruning)
    scen.horizon    -> latest virtual time the clock may be advanced to
    scen.problems   -> [(sig, msg)]

Scheduling is pass-faithful: the ready queue is FIFO and never reordered; at a
pass *boundary* the explorer chooses, repeatedly, between running the pass and
admitting one more environment event (its handler is appended behind what is
queued) or letting the next timer fall due.  Default answers cost nothing:
  - something is ready            -> run the pass
  - nothing ready, events enabled -> admit the first enabled event
  - nothing ready, no events      -> advance the clock to the next timer
Any other answer is a *deviation* (cost 1).  All executions with at most
`bound` deviations are enumerated (every execution runs to quiescence).
"""
from __future__ import annotations

from . import core
from .core import ExecutionTimeout, HarnessError, h64
from .vloop import VLoop

PROP = "C??"   # set by the harness; names the property in the 'does not terminate' signature

RUN = "<run>"
CLOCK = "<clock>"
END = "<end>"


class Execution:
    __slots__ = ("points", "problems", "obs", "passes", "capped", "pruned", "trace")

    def __init__(self):
        self.points = []      # [(labels tuple, chosen index, deviations before this point)]
        self.problems = []
        self.obs = None
        self.passes = 0
        self.capped = False
        self.pruned = False
        self.trace = []       # labels actually taken (incl. forced ones), for humans


def run_one(factory, case, prefix, max_passes=2000, seen=None, bound=None):
    """Run one execution following `prefix` [(labels, idx)] then defaults."""
    loop = VLoop().hold()
    ex = Execution()
    scen = None
    guard = core.deadline(core.EXEC_BUDGET_S)
    guard.__enter__()
    try:
        scen = factory(case, loop)
        pi = 0
        devs = 0
        while True:
            # ---- one boundary: keep choosing until a pass runs or we stop
            ran = False
            injected_here = set()
            while True:
                ready = loop.has_ready() or loop.has_due_timer()
                menu = [(l, f) for (l, f) in scen.menu() if l not in injected_here]
                faults = [(l, f) for (l, f) in scen.faults() if l not in injected_here]
                nt = loop.next_timer()
                clock_ok = nt is not None and nt > loop.time() and nt <= scen.horizon
                # option 0 is always the default (never a fault)
                if ready:
                    # letting a timer fall due while callbacks are still queued models a stalled process;
                    # scenarios that judge wall-clock deadlines switch that deviation off
                    options = [RUN] + [l for l, _ in menu] + ([CLOCK] if clock_ok and getattr(scen, "clock_when_ready", True) else [])
                elif menu:
                    options = [l for l, _ in menu] + ([CLOCK] if clock_ok else [])
                else:
                    # quiescent: nothing runs and the environment owes nothing;
                    # only time (or a fault) can move the system from here
                    q = getattr(scen, "quiescent", None)
                    if q is not None:
                        q()
                    if clock_ok:
                        options = [CLOCK]
                    else:
                        options = [END] if faults else []
                options += [l for l, _ in faults]
                if not options:
                    break
                if len(options) == 1:
                    choice = 0
                else:
                    labels = tuple(options)
                    if pi < len(prefix):
                        want_labels, choice = prefix[pi]
                        if tuple(want_labels) != labels:
                            raise HarnessError(
                                f"replay diverged at choice point {pi}: recorded options {want_labels} but now {labels}")
                    else:
                        choice = 0
                        if seen is not None:
                            st = scen.state()
                            if st is not None:
                                key = h64((st, labels))
                                best = seen.get(key)
                                if best is not None and best <= devs:
                                    ex.pruned = True
                                    break
                                seen[key] = devs
                    ex.points.append((labels, choice, devs))
                    pi += 1
                    if choice != 0:
                        devs += 1
                lab = options[choice]
                ex.trace.append(lab)
                if lab == RUN:
                    loop.run_pass()
                    ran = True
                    break
                elif lab == END:
                    break
                elif lab == CLOCK:
                    loop.advance_to_next_timer()
                else:
                    fire = dict(menu + faults)[lab]
                    loop.inject(fire)
                    injected_here.add(lab)
            if ex.pruned:
                break
            if not ran:
                break
            ex.passes += 1
            scen.monitor()
            if ex.passes >= max_passes:
                ex.capped = True
                break
        if not ex.pruned:
            ex.obs = scen.final()
        ex.problems = list(scen.problems)
        scen.close()
    except ExecutionTimeout as e:
        # the code under test looped without returning to the event loop: a violation of
        # whatever liveness the property promises, and never a reason to hang the check
        ex.capped = True
        ex.problems = (list(scen.problems) if scen is not None else []) + [
            (f"{PROP}:execution-does-not-terminate", f"one execution did not finish: {e}; last events {ex.trace[-6:]}")]
    finally:
        guard.__exit__(None, None, None)
        try:
            with core.deadline(20):
                loop.finish()
        except ExecutionTimeout:
            loop.release()
    return ex


def explore(factory, case, bound, max_execs=200000, max_passes=2000, prune=False, on_exec=None):
    """Enumerate every execution with <= bound deviations, *bound by bound* (0, then 1, then 2 ...): each level is a
    depth-first walk that reports only the executions with exactly that many deviations (the shallower ones are
    re-run as inner nodes - cheap, the levels grow geometrically).  If `max_execs` runs are used up, the walk stops:
    stats["completed_bound"] is the last bound whose executions were all explored, stats["truncated"] is set, and
    what was reported of the next level is a prefix of it in DFS order.  Returns the stats dict."""
    stats = {"executions": 0, "passes": 0, "choice_points": 0, "capped": 0, "pruned": 0,
             "max_points": 0, "truncated": False, "hung": False, "completed_bound": -1, "runs": 0}
    seen = {} if prune else None
    for level in range(bound + 1):
        stack = [([], 0)]
        aborted = False
        while stack:
            prefix, devs = stack.pop()
            if stats["runs"] >= max_execs:
                aborted = True
                break
            ex = run_one(factory, case, prefix, max_passes=max_passes, seen=seen, bound=bound)
            stats["runs"] += 1
            if devs == level:
                stats["executions"] += 1
                stats["passes"] += ex.passes
                stats["choice_points"] += max(0, len(ex.points) - len(prefix))
                stats["max_points"] = max(stats["max_points"], len(ex.points))
                stats["capped"] += ex.capped
                stats["pruned"] += ex.pruned
                if on_exec is not None:
                    on_exec(ex)
                if any(sig.endswith(":execution-does-not-terminate") for sig, _m in ex.problems):
                    # every further schedule of this scenario would cost a full budget: the violation is recorded, stop here
                    stats["truncated"] = True
                    stats["hung"] = True
                    return stats
                continue            # its children belong to the next level
            # an inner node of this level's walk: deviate once more at each choice point after the prefix
            for i in range(len(prefix), len(ex.points)):
                labels, chosen, devs_before = ex.points[i]
                if devs_before + 1 > level:
                    continue
                base = [(l, c) for (l, c, _d) in ex.points[:i]]
                for alt in range(len(labels) - 1, 0, -1):
                    stack.append((base + [(labels, alt)], devs + 1))
        if aborted:
            stats["truncated"] = True
            break
        stats["completed_bound"] = level
    return stats


def schedule_of(ex: Execution):
    """Replayable, human-readable schedule: the non-default choices only."""
    return [{"at": i, "options": list(l), "take": l[c]} for i, (l, c, _d) in enumerate(ex.points) if c != 0]


def prefix_of(ex: Execution):
    return [[list(l), c] for (l, c, _d) in ex.points]
