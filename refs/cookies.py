"""RFC 6265 reference cookie store (DESIGN §2.6) - deliberately boring.

Keyed (name, domain, path); per cookie: value, host_only, secure, absolute
expiry (None = session).  Only what property C16 states is modelled, plus the
two rules aiohttp documents: cookies from/to IP hosts are ignored unless
`unsafe`, and a Domain attribute with a trailing dot is ignored (the cookie
becomes host-only).  No public-suffix list (aiohttp has none; RFC 6265 makes it
optional).
"""
from __future__ import annotations

import calendar
import re

_IPV4 = re.compile(r"^\d{1,3}(\.\d{1,3}){3}$")


def is_ip(host: str) -> bool:
    return bool(_IPV4.match(host)) or ":" in host


def domain_match(host: str, domain: str) -> bool:
    """RFC 6265 §5.1.3: `host` domain-matches `domain`."""
    if host == domain:
        return True
    return host.endswith("." + domain) and not is_ip(host)


def default_path(uri_path: str) -> str:
    """RFC 6265 §5.1.4."""
    if not uri_path or uri_path[0] != "/":
        return "/"
    if uri_path.count("/") == 1:
        return "/"
    return uri_path[: uri_path.rfind("/")]


def path_match(req_path: str, cookie_path: str) -> bool:
    if not req_path:
        req_path = "/"
    if req_path == cookie_path:
        return True
    if req_path.startswith(cookie_path):
        if cookie_path.endswith("/"):
            return True
        if req_path[len(cookie_path)] == "/":
            return True
    return False


_MONTHS = ["jan", "feb", "mar", "apr", "may", "jun", "jul", "aug", "sep", "oct", "nov", "dec"]


def parse_rfc1123(s: str):
    """The shapes the harness emits: 'Wdy, DD Mon YYYY HH:MM:SS GMT', and the same without the weekday, without the
    space behind the comma, or with another zone name (RFC 6265 5.1.1 finds the date tokens in all of them and
    takes the time as UTC whatever the zone says)."""
    m = re.match(r"^(?:\w{3},\s?)?(\d{2}) (\w{3}) (\d{4}) (\d{2}):(\d{2}):(\d{2})(?: \w+)?$", s)
    if not m:
        return None
    d, mon, y, hh, mm, ss = m.groups()
    return calendar.timegm((int(y), _MONTHS.index(mon.lower()) + 1, int(d), int(hh), int(mm), int(ss), -1, -1, -1))


class RefStore:
    def __init__(self, unsafe: bool = False):
        self.unsafe = unsafe
        self.store: dict[tuple[str, str, str], dict] = {}

    # -- §5.3 ---------------------------------------------------------------
    def set_cookie(self, now, host, uri_path, name, value, domain=None, path=None, secure=False,
                   max_age=None, expires=None, log=None):
        """Returns a reason string if the cookie is ignored, else None."""
        host = host.lower()
        if is_ip(host) and not self.unsafe:
            return "ip-host"
        dom = (domain or "").lower()
        if dom.endswith("."):
            dom = ""           # aiohttp: "ignore domains with trailing dots"
        if dom.startswith("."):
            dom = dom[1:]
        if dom:
            if not domain_match(host, dom):
                return "foreign-domain"
            host_only = False
        else:
            host_only = True
            dom = host
        if not path or path[0] != "/":
            path = default_path(uri_path)
        expiry = None
        delta = None
        if max_age is not None and re.fullmatch(r"-?\d+", str(max_age)):
            delta = int(max_age)      # a malformed Max-Age is ignored (§5.2.2)
        if delta is not None:
            # (a user agent may cap the lifetime at the latest date it can represent)
            expiry = now + min(delta, 10 ** 12) if delta > 0 else float("-inf")
        elif expires is not None:
            expiry = parse_rfc1123(expires)
        key = (name, dom, path)
        if log is not None:
            log.add(key)
        self.store[key] = {"value": value, "host_only": host_only, "secure": secure, "expiry": expiry}
        self.expire(now)
        return None

    def expire(self, now):
        for k in [k for k, c in self.store.items() if c["expiry"] is not None and c["expiry"] <= now]:
            del self.store[k]

    def clear(self):
        self.store.clear()

    def clear_domain(self, now, d):
        self.expire(now)
        for k in [k for k in self.store if domain_match(k[1], d)]:
            del self.store[k]

    # -- §5.4 ---------------------------------------------------------------
    def select(self, now, scheme, host, req_path):
        """name -> set of values a conforming store attaches."""
        self.expire(now)
        out: dict[str, set] = {}
        host = host.lower()
        if is_ip(host) and not self.unsafe:
            return out
        secure_ch = scheme in ("https", "wss")
        for (name, dom, path), c in self.store.items():
            if c["host_only"]:
                if host != dom:
                    continue
            elif not domain_match(host, dom):
                continue
            if not path_match(req_path, path):
                continue
            if c["secure"] and not secure_ch:
                continue
            out.setdefault(name, set()).add(c["value"])
        return out

    def why_not(self, now, scheme, host, req_path, value):
        """Explain why no cookie with `value` may be sent (for violation signatures)."""
        cands = [(k, c) for k, c in self.store.items() if c["value"] == value]
        if not cands:
            return "not-in-store"
        reasons = set()
        for (name, dom, path), c in cands:
            if c["host_only"] and host != dom:
                reasons.add("host-only-cookie-to-other-host")
            elif not c["host_only"] and not domain_match(host, dom):
                reasons.add("domain-mismatch")
            elif not path_match(req_path, path):
                reasons.add("path-mismatch")
            elif c["secure"] and scheme not in ("https", "wss"):
                reasons.add("secure-over-insecure")
            else:
                reasons.add("?")
        return "+".join(sorted(reasons))

    def canon(self):
        return tuple(sorted((k, c["value"], c["host_only"], c["secure"], c["expiry"]) for k, c in self.store.items()))
