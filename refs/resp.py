"""Independent response framer: cuts the bytes a server wrote into responses.

Strict: status-line `HTTP/1.x SP 3DIGIT SP reason CRLF`, field lines `name: value
CRLF`, blank line, then a body framed by Content-Length / chunked / none for
HEAD, 1xx, 204, 304 / until close otherwise.  Anything else is `malformed`.
"""
from __future__ import annotations

import re
from dataclasses import dataclass, field

STATUS_RE = re.compile(rb"HTTP/([0-9]\.[0-9]) ([0-9]{3}) ([^\r\n]*)\Z")
TOKEN_RE = re.compile(rb"[!#$%&'*+\-.^_`|~0-9A-Za-z]+\Z")


@dataclass
class Resp:
    status: int = 0
    reason: bytes = b""
    version: int = 1
    headers: list = field(default_factory=list)
    body: bytes = b""
    chunks: list | None = None
    complete: bool = False
    framing: str = ""
    close: bool = False
    start: int = 0
    end: int | None = None

    def header(self, name: bytes, default=None):
        for n, v in self.headers:
            if n.lower() == name.lower():
                return v
        return default


@dataclass
class Framed:
    responses: list
    malformed: str | None = None     # why the byte stream is not a sequence of well-formed responses
    leftover: bytes = b""            # bytes after a response that closes, or an unfinished head


def frame(data: bytes, request_methods=(), eof: bool = False) -> Framed:
    out = Framed(responses=[])
    p = 0
    k = 0  # index into request_methods for final (non-1xx) responses
    while p < len(data):
        r = Resp(start=p)
        he = data.find(b"\r\n\r\n", p)
        if he < 0:
            out.leftover = data[p:]
            if eof:
                out.malformed = "truncated head"
            return out
        lines = data[p:he].split(b"\r\n")
        m = STATUS_RE.match(lines[0])
        if not m or b"\n" in data[p:he].replace(b"\r\n", b"") or b"\r" in data[p:he].replace(b"\r\n", b""):
            out.malformed = f"bad status line or bare CR/LF in head: {data[p:he][:80]!r}"
            return out
        r.version, r.status, r.reason = (0 if m.group(1) == b"1.0" else 1), int(m.group(2)), m.group(3)
        for line in lines[1:]:
            i = line.find(b":")
            if i <= 0 or not TOKEN_RE.match(line[:i]):
                out.malformed = f"bad field line {line[:80]!r}"
                return out
            v = line[i + 1:].strip(b" \t")
            if any(c < 32 and c != 9 or c == 127 for c in v):
                out.malformed = f"control byte in field value {line[:80]!r}"
                return out
            r.headers.append((line[:i], v))
        p = he + 4
        method = request_methods[k] if k < len(request_methods) else "GET"
        informational = 100 <= r.status < 200 and r.status != 101
        conn = (r.header(b"Connection", b"") or b"").lower()
        r.close = b"close" in conn or (r.version == 0 and b"keep-alive" not in conn)
        te = r.header(b"Transfer-Encoding")
        cl = [v for n, v in r.headers if n.lower() == b"content-length"]
        if len(cl) > 1 or (cl and te is not None and not (informational or r.status in (204, 304))):
            out.malformed = "conflicting framing headers in response"
            out.responses.append(r)
            return out
        if informational or r.status in (204, 304) or method == "HEAD" or r.status == 101:
            r.framing = "none"
            r.complete = True
        elif te is not None:
            if te.lower().split(b",")[-1].strip() != b"chunked":
                out.malformed = "response Transfer-Encoding does not end in chunked"
                out.responses.append(r)
                return out
            r.framing = "chunked"
            r.chunks = []
            body = []
            ok = False
            while True:
                le = data.find(b"\r\n", p)
                if le < 0:
                    break
                sz = data[p:le].split(b";")[0]
                if not re.match(rb"[0-9a-fA-F]+\Z", sz):
                    out.malformed = f"bad chunk size {data[p:le][:40]!r}"
                    out.responses.append(r)
                    return out
                n = int(sz, 16)
                p = le + 2
                if n == 0:
                    # trailers until blank line
                    while True:
                        le = data.find(b"\r\n", p)
                        if le < 0:
                            break
                        line = data[p:le]
                        p = le + 2
                        if line == b"":
                            ok = True
                            break
                    break
                if len(data) < p + n + 2:
                    body.append(data[p:p + n])
                    p = len(data)
                    break
                body.append(data[p:p + n])
                r.chunks.append(n)
                if data[p + n:p + n + 2] != b"\r\n":
                    out.malformed = "chunk data not followed by CRLF"
                    out.responses.append(r)
                    return out
                p += n + 2
            r.body = b"".join(body)
            r.complete = ok
        elif cl:
            if not re.match(rb"[0-9]+\Z", cl[0]):
                out.malformed = "bad Content-Length in response"
                out.responses.append(r)
                return out
            n = int(cl[0])
            r.framing = "length"
            r.body = data[p:p + n]
            p += len(r.body)
            r.complete = len(r.body) == n
        else:
            r.framing = "eof"
            r.body = data[p:]
            p = len(data)
            r.complete = eof
            r.close = True
        r.end = p if r.complete else None
        out.responses.append(r)
        if not informational:
            k += 1
        if not r.complete:
            if eof:
                out.malformed = "truncated body"
            return out
        if r.close and r.status != 101:
            out.leftover = data[p:]
            if out.leftover:
                out.malformed = "bytes after a response that closes the connection"
            return out
        if r.status == 101:
            out.leftover = data[p:]
            return out
    return out
