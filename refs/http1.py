"""Independent strict RFC 9112 request reader (DESIGN §2.6).

`read_requests(data)` gives a three-valued reading of a request byte stream:

  verdict 'ok'      every byte so far belongs to the messages listed (the last
                    may be incomplete: `pending_head` / body still open)
  verdict 'reject'  message number len(messages) is malformed/ambiguous in a
                    way the property names: the implementation MUST reject it
  verdict 'either'  message number len(messages) falls in a MAY/SHOULD area of
                    the RFC that the property does not name: the implementation
                    may reject it or give it the RFC reading; only the messages
                    before it are compared

Written from RFC 9110/9112 text only; shares no code with aiohttp.
"""
from __future__ import annotations

import re
from dataclasses import dataclass, field

TCHAR = frozenset(b"!#$%&'*+-.^_`|~0123456789abcdefghijklmnopqrstuvwxyzABCDEFGHIJKLMNOPQRSTUVWXYZ")
HEX = frozenset(b"0123456789abcdefABCDEF")
DIGIT = frozenset(b"0123456789")
OWS = b" \t"
# VCHAR / obs-text / SP / HTAB are the only octets a field value may carry
VALUE_BAD = frozenset(range(0, 9)) | frozenset(range(10, 32)) | {127}
# request-target octets that RFC 3986 allows (unreserved / reserved / pct)
TARGET_OK = frozenset(b"abcdefghijklmnopqrstuvwxyzABCDEFGHIJKLMNOPQRSTUVWXYZ0123456789-._~:/?#[]@!$&'()*+,;=%")
VERSION_RE = re.compile(rb"HTTP/([0-9])\.([0-9])\Z")
# chunk-ext = *( BWS ";" BWS chunk-ext-name [ BWS "=" BWS chunk-ext-val ] )
_TOK = rb"[!#$%&'*+\-.^_`|~0-9A-Za-z]+"
_QS = rb'"(?:[\t \x21\x23-\x5b\x5d-\x7e\x80-\xff]|\\[\t \x21-\x7e\x80-\xff])*"'
CHUNK_EXT_RE = re.compile(rb"(?:;" + _TOK + rb"(?:=(?:" + _TOK + rb"|" + _QS + rb"))?)*\Z")
# the same with the "bad whitespace" RFC 9112 7.1.1 lets a recipient tolerate
CHUNK_EXT_BWS_RE = re.compile(rb"(?:[ \t]*;[ \t]*" + _TOK + rb"(?:[ \t]*=[ \t]*(?:" + _TOK + rb"|" + _QS + rb"))?)*[ \t]*\Z")

SINGLETONS_EITHER = {b"content-type", b"etag", b"user-agent", b"server", b"content-location",
                     b"content-range", b"max-forwards"}


@dataclass
class RefMsg:
    method: bytes = b""
    target: bytes = b""
    version: tuple = (1, 1)
    headers: list = field(default_factory=list)   # [(name, value-without-OWS)]
    body: bytes = b""
    chunks: list | None = None                    # sizes of non-terminal chunks, or None
    complete: bool = False                        # body fully present
    close: bool = False
    start: int = 0                                # offset of the first byte of the message
    end: int | None = None                        # offset one past its last byte (when complete)
    framing: str = "none"                         # none | length | chunked | tunnel


@dataclass
class RefResult:
    messages: list
    verdict: str = "ok"            # ok | reject | either
    why: str = ""
    pending_head: bytes = b""      # bytes of an unfinished head at the end of the stream
    opaque: bytes | None = None    # bytes after an upgrade / CONNECT (not HTTP)
    after_close: bytes = b""       # bytes following a message that closes the connection
    max_line: int = 0              # longest start/field/chunk-size/trailer line seen
    max_fields: int = 0            # most field lines in one head or trailer block


class _Reject(Exception):
    pass


class _Either(Exception):
    pass


def _is_token(b: bytes) -> bool:
    return len(b) > 0 and all(c in TCHAR for c in b)


def _split_ows(v: bytes) -> bytes:
    return v.strip(OWS)


def _list_elems(v: bytes) -> list[bytes]:
    return [e.strip(OWS) for e in v.split(b",")]


def _field_line(line: bytes) -> tuple[bytes, bytes]:
    if line[:1] in (b" ", b"\t"):
        raise _Reject("obs-fold or whitespace before field name")
    i = line.find(b":")
    if i < 0:
        raise _Reject("field line without colon")
    name, value = line[:i], line[i + 1:]
    if not _is_token(name):
        raise _Reject("field name is not a token (empty, whitespace or control bytes)")
    value = _split_ows(value)
    if any(c in VALUE_BAD for c in value):
        raise _Reject("control byte in field value")
    return name, value


class _Cursor:
    def __init__(self, data: bytes, res: RefResult):
        self.d = data
        self.p = 0
        self.res = res

    def line(self, what: str):
        """Next CRLF-terminated line, or None if incomplete. Bare LF / bare CR -> reject."""
        i = self.d.find(b"\n", self.p)
        if i < 0:
            rest = self.d[self.p:]
            # a CR that is already followed by a non-LF byte is a bare CR
            for k, c in enumerate(rest[:-1]):
                if c == 13:
                    raise _Reject(f"bare CR in {what}")
            return None
        if i == self.p or self.d[i - 1] != 13:
            raise _Reject(f"bare LF in {what}")
        line = self.d[self.p:i - 1]
        if b"\r" in line:
            raise _BareCR(what, line)
        self.p = i + 1
        self.res.max_line = max(self.res.max_line, len(line))
        return line


class _BareCR(Exception):
    def __init__(self, what, line):
        self.what = what
        self.line = line


def _parse_head(cur: _Cursor, m: RefMsg):
    """Returns False if the head is incomplete."""
    d = cur.d
    try:
        rl = cur.line("request-line")
    except _BareCR as e:
        # RFC 9112 2.2: invalid, or CR read as SP - either way not a clean request line;
        # the property names it only for *fields*
        raise _Either("bare CR in request-line")
    if rl is None:
        return False
    parts = rl.split(b" ")
    either = None
    if len(parts) == 3 and parts[0] and parts[2] and not parts[1]:
        # 'METHOD SP SP version': an empty target; RFC 9112 3 only says SHOULD 400
        raise _Either("empty request-target")
    if len(parts) != 3 or not all(parts):
        raise _Reject("request-line is not 'method SP target SP version'")
    method, target, version = parts
    if not _is_token(method):
        raise _Reject("method is not a token")
    mv = VERSION_RE.match(version)
    if not mv:
        raise _Reject("malformed HTTP-version")
    m.method, m.target = method, target
    m.version = (int(mv.group(1)), int(mv.group(2)))
    if m.version not in ((1, 0), (1, 1)):
        either = "HTTP version other than 1.0/1.1"
    if any(c not in TARGET_OK for c in target):
        either = either or "octets outside the URI grammar in request-target"
    up = method.upper()
    if up == b"CONNECT":
        if not re.match(rb"(?:[A-Za-z0-9.\-]+|\[[0-9A-Fa-f:.]+\]):[0-9]{1,5}\Z", target):
            either = either or "CONNECT target is not a plain host:port authority"
    elif target.startswith(b"/"):
        pass
    elif target == b"*":
        if up != b"OPTIONS":
            either = either or "asterisk-form without OPTIONS"
    else:
        if not re.match(rb"[A-Za-z][A-Za-z0-9+.\-]*://[^/?#]", target):
            either = either or "request-target is neither origin- nor absolute-form"
        else:
            either = either or _absolute_form_doubt(target)
    # field lines
    n = 0
    while True:
        try:
            line = cur.line("header section")
        except _BareCR as e:
            # inside a field value a bare CR is a control byte -> named by the property
            raise _Reject("bare CR in header section")
        if line is None:
            return False
        if line == b"":
            break
        n += 1
        cur.res.max_fields = max(cur.res.max_fields, n)
        m.headers.append(_field_line(line))
    if either:
        raise _Either(either)
    return True


def _absolute_form_doubt(target: bytes):
    """absolute-form whose authority is not plainly 'host[:digits]' -> leave to EITHER."""
    rest = target.split(b"://", 1)[1]
    auth = re.split(rb"[/?#]", rest, 1)[0]
    if b"@" in auth:
        auth = auth.rsplit(b"@", 1)[1]
    if not re.match(rb"(?:[A-Za-z0-9.\-]+|\[[0-9A-Fa-f:.]+\])(?::[0-9]*)?\Z", auth):
        return "absolute-form with an unusual authority"
    if re.search(rb":[0-9]{6,}\Z", auth):
        return "absolute-form with an out-of-range port"
    return None


def _framing(m: RefMsg, upgrades):
    """Decide body framing; raises _Reject/_Either. Returns (kind, length)."""
    names = [n.lower() for n, _ in m.headers]
    hosts = names.count(b"host")
    if hosts > 1:
        raise _Reject("repeated Host")
    if m.version == (1, 1) and hosts == 0:
        raise _Reject("missing Host in HTTP/1.1 request")
    cl = [v for n, v in m.headers if n.lower() == b"content-length"]
    te = [v for n, v in m.headers if n.lower() == b"transfer-encoding"]
    if cl and te:
        raise _Reject("Content-Length together with Transfer-Encoding")
    if len(cl) > 1:
        raise _Reject("repeated Content-Length")
    either = None
    for s in SINGLETONS_EITHER:
        if names.count(s) > 1:
            either = "repeated singleton field " + s.decode()
    if b"sec-websocket-key1" in names:
        either = "hixie-76 websocket key"
    if names.count(b"connection") > 1:
        either = either or "several Connection field lines"
    if names.count(b"upgrade") > 1:
        either = either or "several Upgrade field lines"
    if cl:
        v = cl[0]
        if not v or any(c not in DIGIT for c in v):
            raise _Reject("Content-Length is not 1*DIGIT")
        if either:
            raise _Either(either)
        return "length", int(v)
    if te:
        if len(te) > 1:
            either = either or "several Transfer-Encoding field lines"
        elems = []
        for v in te:
            elems += _list_elems(v)
        if any(e == b"" for e in elems):
            either = either or "empty element in Transfer-Encoding list"
        elems = [e for e in elems if e != b""]

        def name(e):
            return e.split(b";", 1)[0].strip(OWS)

        def is_chunked(e):
            try:
                return name(e).decode("ascii").lower() == "chunked"
            except UnicodeDecodeError:
                return False

        if any(b";" in e for e in elems):
            either = either or "transfer-coding with parameters"
        n_chunked = sum(1 for e in elems if is_chunked(e))
        if not elems:
            # present, and not "a single final chunked": the body's length cannot be determined (RFC 9112 6.3)
            raise _Reject("empty Transfer-Encoding")
        if n_chunked > 1:
            if either:
                raise _Either(either)
            raise _Reject("chunked applied more than once")
        if not is_chunked(elems[-1]):
            if either:
                raise _Either(either)
            raise _Reject("final transfer coding is not chunked")
        if len(elems) > 1:
            # the statement names this one: "a transfer coding that is not a single final 'chunked'"
            if either:
                raise _Either(either)
            raise _Reject("transfer codings other than a single final chunked")
        if m.version == (1, 0):
            either = either or "Transfer-Encoding in an HTTP/1.0 message"
        if either:
            raise _Either(either)
        return "chunked", None
    if either:
        raise _Either(either)
    return "none", 0


def _conn_tokens(m: RefMsg):
    toks = set()
    for n, v in m.headers:
        if n.lower() == b"connection":
            for e in _list_elems(v):
                try:
                    toks.add(e.decode("ascii").lower())
                except UnicodeDecodeError:
                    pass
    return toks


def _read_chunked(cur: _Cursor, m: RefMsg) -> bool:
    """Returns True when the chunked body (incl. trailers) is complete."""
    d = cur.d
    m.chunks = []
    body = []
    while True:
        try:
            line = cur.line("chunk-size line")
        except _BareCR as e:
            # CR inside the size itself is not hex -> reject; inside the extension -> doubtful
            sz = e.line.split(b";", 1)[0]
            if b"\r" in sz:
                raise _Reject("bare CR in chunk size")
            m.body = b"".join(body)
            raise _Reject("bare CR in chunk extension")
        if line is None:
            m.body = b"".join(body)
            return False
        i = line.find(b";")
        size_b, ext = (line, b"") if i < 0 else (line[:i], line[i:])
        if not size_b or any(c not in HEX for c in size_b):
            core = size_b.rstrip(OWS)
            m.body = b"".join(body)
            if ext and core and all(c in HEX for c in core):
                raise _Either("BWS between chunk-size and extension")
            raise _Reject("chunk-size is not 1*HEXDIG")
        if ext and not CHUNK_EXT_RE.match(ext):
            m.body = b"".join(body)
            if CHUNK_EXT_BWS_RE.match(ext):
                raise _Either("BWS in chunk extension")
            # the statement names this one: "malformed chunk sizes, extensions or trailers"
            raise _Reject("chunk extension outside the RFC grammar")
        size = int(size_b, 16)
        if size == 0:
            break
        data = d[cur.p:cur.p + size]
        body.append(data)
        cur.p += len(data)
        if len(data) < size:
            m.body = b"".join(body)
            return False
        m.chunks.append(size)
        term = d[cur.p:cur.p + 2]
        if term == b"\r\n":
            cur.p += 2
        elif len(term) == 2 or (len(term) == 1 and term != b"\r"):
            m.body = b"".join(body)
            raise _Reject("chunk data not followed by CRLF")
        else:
            m.body = b"".join(body)
            return False
    m.body = b"".join(body)
    # trailer section
    n = 0
    while True:
        try:
            line = cur.line("trailer section")
        except _BareCR:
            raise _Reject("bare CR in trailer section")
        if line is None:
            return False
        if line == b"":
            return True
        n += 1
        cur.res.max_fields = max(cur.res.max_fields, n)
        _field_line(line)


def read_requests(data: bytes, upgrades=("websocket", "tcp")) -> RefResult:
    res = RefResult(messages=[])
    cur = _Cursor(data, res)
    while True:
        # RFC 9112 2.2: a server SHOULD ignore at least one empty line before the request-line
        while data[cur.p:cur.p + 2] == b"\r\n":
            cur.p += 2
        if cur.p >= len(data):
            return res
        m = RefMsg(start=cur.p)
        head_start = cur.p
        try:
            if not _parse_head(cur, m):
                res.pending_head = data[head_start:]
                return res
            kind, length = _framing(m, upgrades)
            if m.method.upper() == b"CONNECT" and kind != "none":
                # RFC 9110 9.3.6: CONNECT has no content; what a server does with
                # framing headers on it is not pinned down
                raise _Either("CONNECT with Content-Length/Transfer-Encoding")
            m.framing = kind
            toks = _conn_tokens(m)
            m.close = "close" in toks or (m.version == (1, 0) and "keep-alive" not in toks)
            if m.method.upper() == b"CONNECT" and kind == "none":
                m.framing = "tunnel"
                m.complete = True
                m.end = cur.p
                res.messages.append(m)
                res.opaque = data[cur.p:]
                return res
            res.messages.append(m)
            if kind == "length":
                m.body = data[cur.p:cur.p + length]
                cur.p += len(m.body)
                if len(m.body) < length:
                    return res
            elif kind == "chunked":
                if not _read_chunked(cur, m):
                    return res
            m.complete = True
            m.end = cur.p
        except _Reject as e:
            if res.messages and res.messages[-1] is m:
                # malformed inside the body of an accepted head: the head was
                # delivered, the body must fail; nothing after it is a message
                m.complete = False
                res.verdict, res.why = "reject-body", str(e)
            else:
                res.verdict, res.why = "reject", str(e)
            return res
        except _Either as e:
            if res.messages and res.messages[-1] is m:
                res.verdict, res.why = "either-body", str(e)
            else:
                res.verdict, res.why = "either", str(e)
            return res
        # protocol switch?
        up_vals = [v for n, v in m.headers if n.lower() == b"upgrade"]
        if up_vals and "upgrade" in _conn_tokens(m):
            try:
                u = up_vals[0].decode("ascii").lower()
            except UnicodeDecodeError:
                u = None
            if u in upgrades:
                res.opaque = data[cur.p:]
                return res
            if u is None or "," in (u or "") or any(x in (u or "") for x in upgrades):
                res.verdict, res.why = "either-after", "ambiguous Upgrade value"
                return res
        if m.close:
            res.after_close = data[cur.p:]
            return res
