"""Linear reference rule for URL dispatch (DESIGN §2.6, C14).

Everything is computed from the template *text* and the raw request path; no
index, no re-quoting.  The documented rule (docs/web_reference.rst, "Resource"):
candidates are tried from the longest fixed prefix to the shortest, in
registration order among equal prefixes; a resource whose path matches but
whose methods do not contributes to the 405 allowed set; a sub-application
mounted on a prefix claims the whole subtree under it; domain sub-applications
are consulted first when the Host matches.
"""
from __future__ import annotations

import re

_SPLIT = re.compile(r"(\{[_a-zA-Z][^{}]*(?:\{[^{}]*\}[^{}]*)*\})")
_PCT = re.compile(r"%([0-9A-Fa-f]{2})")


def path_safe(raw: str) -> str:
    """Percent-decode a raw (ASCII) request path except %2F and %25 - the form a
    path comparison must use so that an encoded slash is not a separator."""
    out = bytearray()
    i = 0
    while i < len(raw):
        m = _PCT.match(raw, i)
        if m:
            hx = m.group(1).upper()
            if hx in ("2F", "25"):
                out += b"%" + hx.encode()
            else:
                out.append(int(hx, 16))
            i += 3
        else:
            out += raw[i].encode("utf-8")
            i += 1
    return out.decode("utf-8", "surrogateescape")


def unquote_value(v: str) -> str:
    return v.replace("%2F", "/").replace("%25", "%")


def parts_of(template: str):
    """[('lit', text) | ('var', name, regex|None)]"""
    out = []
    for piece in _SPLIT.split(template):
        if not piece:
            continue
        if piece.startswith("{") and piece.endswith("}") and _SPLIT.fullmatch(piece):
            body = piece[1:-1]
            name, _, rx = body.partition(":")
            out.append(("var", name, rx or None))
        else:
            out.append(("lit", piece))
    return out


def is_dynamic(template: str) -> bool:
    return any(p[0] == "var" for p in parts_of(template))


def fixed_prefix(template: str) -> str:
    if "{" in template:
        template = template.partition("{")[0].rpartition("/")[0]
    return template.rstrip("/") or "/"


def compile_template(template: str):
    rx = ""
    for p in parts_of(template):
        if p[0] == "lit":
            rx += re.escape(p[1])
        else:
            rx += "(?P<%s>%s)" % (p[1], p[2] if p[2] is not None else r"[^{}/]+")
    return re.compile(rx)


def match(template: str, psafe: str):
    if not is_dynamic(template):
        return {} if (template or "/") == psafe else None
    m = compile_template(template).fullmatch(psafe)
    if m is None:
        return None
    return {k: unquote_value(v) for k, v in m.groupdict().items()}


def seg_prefix(prefix: str, psafe: str) -> bool:
    if prefix == "/":
        return psafe.startswith("/")
    return psafe == prefix or psafe.startswith(prefix + "/")


def nseg(prefix: str) -> int:
    return 0 if prefix == "/" else prefix.count("/")


def domain_match(rule: str, host: str) -> bool:
    """add_domain: "if request.headers['host'] matches the pattern domain" - the whole Host
    value (a default :80 in the rule is dropped), host names compared case-insensitively,
    '*' in a mask stands for any run of characters."""
    rule = rule.rstrip(".").lower()
    if rule.endswith(":80"):
        rule = rule[:-3]
    host = (host or "").lower()
    if "*" in rule:
        return re.fullmatch(".*".join(re.escape(x) for x in rule.split("*")), host) is not None
    return host == rule


def resolve(table, host: str, psafe: str, method: str, mount: str = ""):
    """table: list of entries
         ('res', rid, template, methods frozenset)      methods may contain '*'
         ('sub', prefix, subtable)
         ('dom', domain, subtable)
    returns ('ok', rid, match dict) | (405, frozenset) | (404,)"""
    allowed = set()
    for e in table:
        if e[0] == "dom" and domain_match(e[1], host):
            return resolve(e[2], host, psafe, method, mount)        # final, whatever it is
    cands = []
    for idx, e in enumerate(table):
        if e[0] == "res":
            pre = fixed_prefix(mount + e[2])
        elif e[0] == "sub":
            pre = mount + e[1]
        else:
            continue
        if seg_prefix(pre, psafe):
            cands.append((-nseg(pre), idx, e))
    for _n, _i, e in sorted(cands, key=lambda c: (c[0], c[1])):
        if e[0] == "sub":
            r = resolve(e[2], host, psafe, method, mount + e[1])     # a mounted app claims its subtree
            if r[0] != "ok" and allowed:
                # ... but resources looked at before it (longer fixed prefix) that match the path keep counting:
                # "405 with the complete set of allowed methods", "404 only if no resource matches the path"
                return (405, frozenset(allowed | (set(r[1]) if r[0] == 405 else set())))
            return r
        m = match(mount + e[2], psafe)
        if m is None:
            continue
        if method in e[3] or "*" in e[3]:
            return ("ok", e[1], m)
        allowed |= set(e[3])
    if allowed:
        return (405, frozenset(allowed))
    return (404,)
