"""RFC 6455 / RFC 7692 reference frame decoder (DESIGN §2.6, C11/C12).

`decode(stream, compress, max_msg_size, decode_text)` reads a complete byte
stream and returns (messages, error) where messages are
  ("text", str|bytes) | ("binary", bytes) | ("ping", bytes) | ("pong", bytes) | ("close", code, reason)
up to the first violation and error is None or a set of acceptable close codes.
Only what property C12 names is enforced; where RFC 6455 is silent or the
property names nothing (non-minimal length encodings, masking direction) the
decoder is lenient.  Decoding stops at a Close frame.
"""
from __future__ import annotations

import struct
import zlib

VALID_CLOSE = set(range(1000, 1004)) | set(range(1007, 1015)) | set(range(3000, 5000))
TRAILER = b"\x00\x00\xff\xff"


class Violation(Exception):
    def __init__(self, codes, why):
        super().__init__(why)
        self.codes = set(codes)
        self.why = why


def unmask(mask, data):
    return bytes(b ^ mask[i & 3] for i, b in enumerate(data))


def frames(stream: bytes):
    """Yield (fin, rsv1, rsv2, rsv3, opcode, payload, declared_len, header_only) per frame; stops at an
    incomplete frame.  For an incomplete frame whose header is complete yields a final item with payload None."""
    p = 0
    n = len(stream)
    while n - p >= 2:
        b0, b1 = stream[p], stream[p + 1]
        q = p + 2
        ln = b1 & 0x7F
        head = (b0 >> 7 & 1, b0 >> 6 & 1, b0 >> 5 & 1, b0 >> 4 & 1, b0 & 0xF)
        # the first two bytes are already known to the decoder: a violation visible in them counts
        if ln == 126:
            if n - q < 2:
                yield head + (None, 126 if head[4] > 7 else 0, True)
                return
            ln = struct.unpack("!H", stream[q:q + 2])[0]
            q += 2
        elif ln == 127:
            if n - q < 8:
                yield head + (None, 127 if head[4] > 7 else 0, True)
                return
            ln = struct.unpack("!Q", stream[q:q + 8])[0]
            q += 8
        mask = None
        if b1 & 0x80:
            if n - q < 4:
                yield head + (None, ln, True)
                return
            mask = stream[q:q + 4]
            q += 4
        if n - q < ln:
            yield head + (None, ln, True)
            return
        payload = stream[q:q + ln]
        if mask is not None:
            payload = unmask(mask, payload)
        yield head + (payload, ln, False)
        p = q + ln


def decode(stream: bytes, compress: bool, max_msg_size: int, decode_text: bool = True):
    msgs = []
    partial = None          # [opcode, compressed, bytearray] of the message in progress
    inflater = None
    try:
        for fin, rsv1, rsv2, rsv3, op, payload, ln, incomplete in frames(stream):
            control = op > 7
            # every violation visible in this frame's header; several may apply at once and an
            # implementation may report any of them
            bad = []
            if rsv2 or rsv3 or (rsv1 and not compress):
                bad.append((1002, "reserved bits"))
            if op not in (0, 1, 2, 8, 9, 10):
                bad.append((1002, "unknown opcode"))
            elif control:
                if not fin:
                    bad.append((1002, "fragmented control frame"))
                if ln > 125:
                    bad.append((1002, "oversized control frame"))
                if rsv1:
                    bad.append((1002, "rsv1 on control frame"))
            else:
                if op == 0:
                    if partial is None:
                        bad.append((1002, "continuation without a started message"))
                    if rsv1:
                        bad.append((1002, "rsv1 on a continuation frame"))
                elif partial is not None:
                    bad.append((1002, "new data frame inside a fragmented message"))
                have = len(partial[2]) if partial is not None else 0
                if ln >= 1 << 63:
                    bad += [(1002, "64-bit length with the top bit set"), (1009, "64-bit length with the top bit set")]
                elif max_msg_size and have + ln > max_msg_size:
                    bad.append((1009, "message larger than max_msg_size"))
            if bad:
                raise Violation({c for c, _w in bad}, " + ".join(sorted({w for _c, w in bad})))
            if incomplete:
                break
            if control:
                if op == 9:
                    msgs.append(("ping", payload))
                elif op == 10:
                    msgs.append(("pong", payload))
                else:
                    if len(payload) == 1:
                        raise Violation({1002}, "close frame with a 1-byte payload")
                    if len(payload) >= 2:
                        code = struct.unpack("!H", payload[:2])[0]
                        if code not in VALID_CLOSE:
                            raise Violation({1002}, f"invalid close code {code}")
                        try:
                            reason = payload[2:].decode("utf-8")
                        except UnicodeDecodeError:
                            raise Violation({1007}, "invalid UTF-8 in close reason")
                        msgs.append(("close", code, reason))
                    else:
                        msgs.append(("close", 0, ""))
                    break
                continue
            if op != 0:
                partial = [op, bool(rsv1), bytearray()]
            partial[2] += payload
            if not fin:
                continue
            mop, comp, data = partial
            partial = None
            data = bytes(data)
            if comp:
                if inflater is None:
                    inflater = zlib.decompressobj(wbits=-15)
                try:
                    out = inflater.decompress(data + TRAILER, (max_msg_size + 1) if max_msg_size else 0)
                except zlib.error:
                    raise Violation((), "corrupt deflate stream")   # no code is specified: any error will do
                if max_msg_size and len(out) > max_msg_size:
                    raise Violation({1009}, "inflated message larger than max_msg_size")
                if inflater.unconsumed_tail:
                    # without a cap the whole message inflates at once
                    out += inflater.decompress(inflater.unconsumed_tail)
                data = out
            if mop == 1:
                try:
                    text = data.decode("utf-8")
                except UnicodeDecodeError:
                    if decode_text:
                        raise Violation({1007}, "invalid UTF-8 in text message")
                    text = None
                msgs.append(("text", text if decode_text else data))
            else:
                msgs.append(("binary", data))
    except Violation as v:
        return msgs, v
    return msgs, None


# ---------------------------------------------------------------- frame builder (harness side)
def frame(op, payload=b"", fin=1, rsv=0, mask=None, lenenc=None, declared=None):
    """Build one frame.  rsv = 3-bit value (4 = RSV1); lenenc 7/16/64 forces an encoding;
    `declared` overrides the length field (payload shorter/longer than declared)."""
    b0 = (fin << 7) | (rsv << 4) | op
    n = len(payload) if declared is None else declared
    if lenenc is None:
        lenenc = 7 if n < 126 else 16 if n < 65536 else 64
    mbit = 0x80 if mask is not None else 0
    if lenenc == 7:
        head = bytes([b0, mbit | n])
    elif lenenc == 16:
        head = bytes([b0, mbit | 126]) + struct.pack("!H", n)
    else:
        head = bytes([b0, mbit | 127]) + struct.pack("!Q", n)
    if mask is not None:
        return head + mask + unmask(mask, payload)
    return head + payload


def deflate_message(data: bytes, ctx=None):
    """permessage-deflate payload of one message (trailer stripped)."""
    c = ctx or zlib.compressobj(wbits=-15)
    out = c.compress(data) + c.flush(zlib.Z_SYNC_FLUSH)
    assert out.endswith(TRAILER)
    return out[:-4]
