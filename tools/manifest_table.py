"""Per-property manifest text.  Only properties whose harness exists, passes its
self-tests and has detected at least one mutant are listed in CHECKS."""

TRUST = ("Trusted base: the reference model in the harness, the virtual loop / in-memory environment of DESIGN §2.1-2.2, "
         "CPython 3.12, asyncio, yarl, multidict, zlib; verdict holds for the stated alphabet and bound only.")

CHECKS = {
    "C08": {
        "engine": "SEQ",
        "design_ref": "§3 C08, §2.4",
        "technique": "explicit-state BFS over StreamReader operation histories (real object) vs byte-queue model",
        "text": "Every history up to the depth bound over a 24-op producer/consumer alphabet is executed on the real StreamReader+BaseProtocol; "
                "conservation, EOF ordering, chunk-boundary truthfulness and the pause/resume invariants are checked after every step in every reachable canonical state.",
        "note": TRUST + " Alphabet: feeds {b'',1,2,2 with LF,5 bytes}, chunk begin/end, eof, set_exception, unread_data, 12 read APIs; limits {1,2,4}; parser-held data modelled by a stash fed on resume.",
    },
}

NOT_APPLICABLE = {}
