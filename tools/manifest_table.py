"""Per-property manifest text.  Only properties whose harness exists, passes its
self-tests and has detected at least one mutant are listed in CHECKS."""

TRUST = ("Trusted base: the reference model in the harness, the virtual loop / in-memory environment of DESIGN §2.1-2.2, "
         "CPython 3.12, asyncio, yarl, multidict, zlib; verdict holds for the stated alphabet and bound only.")

CHECKS = {
    "C08": {
        "engine": "SEQ",
        "design_ref": "§3 C08, §2.4",
        "technique": "explicit-state BFS over StreamReader operation histories (real object) vs byte-queue model",
        "text": "Every history up to the depth bound over a 24-op producer/consumer alphabet is executed on the real StreamReader+BaseProtocol; "
                "conservation, EOF ordering, chunk-boundary truthfulness and the pause/resume invariants are checked after every step in every reachable canonical state. Back-pressure is also an invariant at rest (a resume whose held-back data refills the buffer must leave the transport paused).",
        "note": TRUST + " Alphabet: feeds {b'',1,2,2 with LF,5 bytes}, chunk begin/end, eof, set_exception, unread_data, 12 read APIs; limits {1,2,4}; parser-held data modelled by a stash fed on resume.",
    },
}

CHECKS["C01"] = {
    "engine": "STREAM",
    "design_ref": "§3 C01, §2.5, §2.6",
    "technique": "exhaustive enumeration of mutated request streams vs independent RFC 9112 reader",
    "text": "Every baseline request of a grammar x every mutation operator at every segment (pairs in thorough), every byte substitution/insertion/deletion "
            "from a fixed alphabet at every offset, and all token strings up to depth d over five framing sub-languages are read both by an independent strict "
            "RFC 9112 reader and by the real HttpRequestParser; boundaries, method, target, version, field list, body bytes and chunk ends must agree, "
            "MUST-reject streams must be rejected, and representatives go through a real RequestHandler (4xx + close). The reference rejects what the statement names: a coding before the final chunked, an empty Transfer-Encoding, a chunk extension outside the grammar.",
    "note": TRUST + " The reference reader (refs/http1.py) is three-valued: where RFC 9112 says MAY/SHOULD and the property names nothing the verdict is EITHER and only earlier messages are compared.",
}
CHECKS["C03"] = {
    "engine": "STREAM",
    "design_ref": "§3 C03, §2.5",
    "technique": "exhaustive cut enumeration (all 1-cuts, 2-cuts, byte-at-a-time, all 2^(n-1) for n<=12) vs the un-cut run",
    "text": "For each stream of the request corpus (baselines, every single mutation, limit-approach inputs incl. pipelined ones) and a response corpus, under "
            "equal, unequal and tiny-buffer limit configurations, every segmentation of the stated classes is fed to the real parser followed by feed_eof and "
            "compared field by field with the un-cut run: verdict, limit verdict, messages, bodies, chunk ends, tail. After a body that the parser failed without raising, the continuation must not depend on segmentation either; responses at their limits under CRLF / LF / CR CR LF endings. Chunk boundaries are observed the way an application sees them (readchunk() between the reads), including chunks of a compressed body that decode to nothing.",
    "note": TRUST + " Oracle is the un-cut run of the same implementation; payload streams are drained after every feed so a paused parser is resumed.",
}
CHECKS["C10"] = {
    "engine": "STREAM",
    "design_ref": "§3 C10",
    "technique": "exhaustive stream/cut/limit enumeration with exception-class, limit, retained-bytes and call-count monitors",
    "text": "All corpus streams x all single cuts x limit configs, hostile request-targets, limit-1/limit/limit+1 inputs in every syntactic position, response corpus with byte "
            "mutations: only HttpProcessingError may leave the parsers, over-limit inputs are rejected and within-limit ones are not, retained bytes are bounded after every "
            "feed, call counts grow linearly on doubling families, and the real server/client protocol turn errors into 400 / client errors without anything escaping. Every limit case and the trailer section's field rules also go through the real server with a body-reading and a non-reading handler (protocol error => 400). Requests whose interpreted header fields (Expect, Host, Forwarded, Range, ...) carry non-UTF-8 or ill-formed values go through the real server with a handler that touches every request attribute under a CPU deadline; CR-only continuations of a line and fields folded over several lines are part of the limit inputs.",
    "note": TRUST + " Work is measured as Python call events on enumerated families only; a field's size is the length of its whole line.",
}

CHECKS["C07"] = {
    "engine": "SCHED",
    "design_ref": "§3 C07, §2.1-2.3",
    "technique": "deviation-bounded exhaustive schedule exploration of the real BaseConnector on a virtual event loop",
    "text": "N=2..3 (4 in thorough) client tasks x host maps x (limit, limit_per_host) x waiter-queue order run the real connect()/release()/close() on a virtual loop; "
            "every schedule with at most d deviations (attempt failure, alternative release mode, cancel of any task, connector.close(), several events in one pass, timer first) "
            "is executed; a harness ledger is compared with the limits and the connector's own sets after every pass, and lost wake-ups, leaks and close() effects are checked at quiescence. Also with client tracing whose callbacks really suspend (every connection trace point is then an await point) and an orphaned-connection oracle (every transport created is closed or pooled once all requests ended). Compound events (a release, a new request and close() in one loop iteration) are part of the fault menu.",
    "note": TRUST + " _create_connection awaits a harness future; waiter shuffle is identity or reversal; bound d=2 quick, 3 thorough.",
}

CHECKS["C05"] = {
    "engine": "SCHED",
    "design_ref": "§3 C05, §2.1-2.3",
    "technique": "deviation-bounded exhaustive schedule exploration of the real RequestHandler on a virtual loop + independent response framer",
    "text": "About 70 scenarios (pipelines of 1..40 requests with and without bodies, hostile inputs, 9 handler behaviours) run a real web.Application behind a real RequestHandler "
            "on the in-memory wire; every schedule with at most d deviations (inbound segmentation, write buffer full/flush, peer close/reset at any pass, timer before I/O, "
            "several events per pass) is executed.  An independent framer cuts the server's output; order, count, well-formedness, 4xx+close for unparsable input, the queue bound, "
            "no escaping exception, no loop-handler call and 'no open connection with an unanswered request and an idle handler' (at every quiescent point) are checked. Also: 34/70 sequential requests whose bodies arrive late on one connection (history), handlers that fail or swap the response after the head is out, upgrade requests carrying a body that are declined. An accepted WebSocket upgrade on a request with a body, pipelined behind a waiting request, with every split of the body and either release order, must receive the frame that follows the body.",
    "note": TRUST + " d=2 quick, 3 thorough (1/2 on the 31..40-deep pipelines).",
}

NOT_APPLICABLE = {}

CHECKS["C06"] = {
    "engine": "SCHED",
    "design_ref": "§3 C06, §2.1-2.3",
    "technique": "deviation-bounded exhaustive schedule exploration of the real ClientSession/connector/ResponseHandler against stamping scripted peers",
    "text": "About 120 histories of 2-3 requests (sequential and concurrent, GET/POST, four read modes) x 19 peer behaviours (surplus bytes in the same or a later segment, "
            "unsolicited/partial/garbage bytes while idle, late 1xx, truncation, close, close-delimited) x a 7-point connection-key lattice run a real ClientSession on the "
            "in-memory wire; every schedule with at most d deviations (when the peer answers, how its bytes are cut, when stray bytes / FIN / reset arrive relative to release and "
            "re-acquisition, cancel) is executed.  Peers stamp each response with the id read from the request line on that connection: a caller never sees another stamp, a "
            "connection that saw stray bytes / FIN / reset is never handed out again, and keys never share a transport. Also: the head of a response cut from its body (so the body ends in the same read as a surplus response) and Expect: 100-continue answered by a final response.",
    "note": TRUST + " d=2 quick, 3 thorough. Stray bytes that reach the client only after the next request already owns the connection are indistinguishable from its answer and are not counted.",
}

CHECKS["C16"] = {
    "engine": "SEQ",
    "design_ref": "§3 C16, §2.4, §2.6",
    "technique": "explicit-state BFS over CookieJar operation histories (real object, virtual clock) vs RFC 6265 reference store, full URL-lattice query after every step",
    "text": "Every history up to the depth bound over Set-Cookie ops (a base cookie with up to two varied dimensions out of response host, Domain, Path, response path, Secure, "
            "expiry form, name - 157 to 400 ops), clock ticks, clear, clear_domain, save+load and mutating filter_cookies calls is executed on the real CookieJar; in every "
            "reachable canonical state (reference store + all jar side tables) 50 request URLs (5 related hosts x 2 schemes x 5 paths) are queried and compared with an "
            "independent RFC 6265 store: no value the reference would not send (host-only, domain, path, Secure, expiry, foreign-domain acceptance), none missing. Paths with repeated trailing slashes and malformed Max-Age combined with Expires are part of the dimensions. Header shapes include unknown attributes (valueless / with a value), a second attribute-only Set-Cookie header in the same response, an upper-case Domain and a 400-digit Max-Age.",
    "note": TRUST + " Set-Cookie enters through update_cookies_from_headers (the ClientSession path); clock = aiohttp.cookiejar.time rebound; no public-suffix list; "
            "when several same-named cookies match, the jar's single value must be one of the reference's.",
}

CHECKS["C14"] = {
    "engine": "SEQ",
    "design_ref": "§3 C14, §2.6",
    "technique": "exhaustive enumeration of route tables x registration orders x request lattice on the real UrlDispatcher vs a linear reference rule",
    "text": "Every single resource, every ordered pair and every ordered triple of resources from template pools (plain / {var} / {var:regex} / mid-segment variable / "
            "catch-all / segments needing quoting, with and without trailing slash, x method sets), sub-applications mounted on 3-4 prefixes before and after parent "
            "resources (nested once) and domain / mask-domain sub-applications are built on a real web.Application; each is queried with 199 raw request paths "
            "(percent-encoded, empty and repeated segments) x GET/POST/PUT (x 7 Host values) through the real request parser and UrlDispatcher.resolve and compared with the "
            "documented rule computed from the template text: handler, match_info, 404 vs 405 and the allowed set.  url_for o resolve = identity over 16 parameter values per "
            "variable (also under mounted prefixes), and every normalize_path_middleware redirect over all <=3-4 token targets from a 12-token alphabet stays on-site. All queries of a table run on one long-lived router; an answer that differs from a fresh router's is reported as history-dependent. Domain applications nested in mounted applications, and the accumulation of allowed methods across a mounted application, are part of the tables.",
    "note": TRUST + " quick caps the pair/triple sections at the stated pools (reported as pools, not caps); a mounted sub-application claims its subtree and a matching domain "
            "sub-application is final, as the code documents.",
}

CHECKS["C12"] = {
    "engine": "STREAM",
    "design_ref": "§3 C12, §2.5, §2.6",
    "technique": "exhaustive frame-token sequence x segmentation enumeration on the real WebSocketReader vs an RFC 6455/7692 reference decoder",
    "text": "All sequences of up to 2 tokens over the full frame alphabet (about 60 tokens: valid TEXT/BINARY/CONTINUATION/PING/PONG/CLOSE in every fin/mask/length "
            "form, one token per violation class of the statement, sizes max-1/max/max+1, compressed and decompression-bomb tokens) and up to 3 (4 over the 16 core tokens in thorough) over a "
            "core alphabet, for 5-7 (compress, decode_text, max_msg_size) configurations, are fed to the real reader whole, under every single cut, every pair of cuts (sequences of up to two tokens; in thorough also of three core tokens) "
            "and byte-at-a-time.  Messages up to the first violation, the close code, 'nothing delivered after the error', independence of segmentation and the "
            "retained-bytes bound are checked on every run. The application's view is taken through the queue's read path (prompt and late consumer, with and without end of connection), and 1300-frame histories on one reader check that nothing accumulates from frame to frame. An application that does not read must see the transport paused after a bounded number of (also empty) messages; what arrives after the reader ended must not be retained by the client protocol; and the real server and client handshakes are run with every offer/answer to check that RSV1 is accepted exactly when permessage-deflate was agreed on the wire.",
    "note": TRUST + " The protocol object behind the data queue is a pause/resume stub; non-minimal length encodings and mask direction are not judged; "
            "for a corrupt deflate stream any error is accepted (no code is specified).",
}

CHECKS["C11"] = {
    "engine": "SCHED",
    "design_ref": "§3 C11, §2.1-2.3, §2.5",
    "technique": "exhaustive message-sequence x configuration x cut enumeration (writer -> reader) plus deviation-bounded schedule exploration of concurrent senders",
    "text": "seq: every sequence of up to 2 messages (3 over the small sizes) over TEXT/BINARY x sizes {0,1,125,126,127,16383,16384,16385,65535,65536} and PING/PONG is "
            "sent through the real WebSocketWriter for every (mask, wbits 0/9/15 [9..15 thorough], notakeover, per-message compress) configuration and read back by "
            "the real WebSocketReader whole, under every single cut / byte-at-a-time (<=160 bytes) or all structural cuts.  conc: 2-3 sender tasks share one writer; "
            "executor completions of large compressed frames and cancellation of any sender at any loop pass are environment events, every schedule with <= d "
            "deviations is run; the reader must deliver without error an interleaving that keeps each task's order, contains every message whose send returned, "
            "and nothing that was not sent. Also: per-message compress override between messages of the shared context, senders that start later, and an executor model in which the job runs at submission and only its completion is delivered later.",
    "note": TRUST + " d=2 quick, 3 thorough. Executor jobs complete atomically when delivered; a job whose awaiting task was cancelled still runs (its result is dropped), as a "
            "started thread would. Masks come from a fixed-seed Random.",
}

CHECKS["C20"] = {
    "engine": "SCHED",
    "design_ref": "§3 C20, §2.1-2.3",
    "technique": "exhaustive fault enumeration over cleanup-context / signal-handler failures through both entry points + deviation-bounded schedule exploration of shutdown on a virtual loop",
    "text": "ctx: every assignment of {ok, fails in setup, fails in teardown} x {async-generator, context-manager class} to n<=3 cleanup contexts, of ok/raise to "
            "on_startup/on_shutdown/on_cleanup handlers and of 1-2 contexts to a sub-application registered before or after them (about 1700 configurations) is run "
            "through AppRunner.setup()/cleanup() and through web._run_app on the virtual loop; an event-log model requires each context's cleanup code exactly once "
            "iff its startup completed, per application in reverse order.  shutdown: 14 scenarios of 2-3 in-memory connections in scripted request phases (idle "
            "keep-alive, partial head, pending body, handler finishing / never finishing / shielding, streaming response, pipelined request, slow on_shutdown hook, "
            "peer reset) where runner.cleanup() may start at any loop pass; every schedule with <= d deviations; the shutdown timeline (nothing new accepted, idle "
            "connections closed at once, released handlers finish uncancelled, nothing survives 2x timeout, all transports closed and cleanup() returned in time) is "
            "judged in virtual time. Also application trees nested 2-3 levels (and a nested one beside a flat sibling) with every assignment of failures.",
    "note": TRUST + " d=2 quick, 3 thorough. loop.create_server is a socket-less fake; _run_app is stopped by cancelling its task; reverse order is judged per application; "
            "'at once' = within 6 loop passes; the clock never advances while callbacks are queued in the shutdown section.",
}

CHECKS["C13"] = {
    "engine": "SCHED",
    "design_ref": "§3 C13, §2.1-2.3",
    "technique": "deviation-bounded exhaustive schedule exploration of real server and client WebSocket sessions against a scripted peer under virtual time",
    "text": "About 230 scenarios = side (server WebSocketResponse behind a real RequestHandler / ClientSession.ws_connect over the in-memory connector) x 6 option "
            "sets (autoclose, autoping, heartbeat, receive timeout) x 11 peer scripts (closes first, data then close, echoes our close, never answers, FIN "
            "without close, unknown opcode, bad UTF-8, close then more data, partial frame then FIN, ping flood) x who closes (receiver / another task, plus a "
            "concurrent sender), and chatty-peer timelines; every schedule with <= d deviations over peer frames, FIN, reset, application close/send, cancellation "
            "and timers is run to quiescence past every timeout.  Judged: nobody blocked in receive()/close()/send, close() within its timeout, at most one CLOSE "
            "frame and no data frame after it, closed session => closed transport, close code = peer's code / 1006 where the cause is unambiguous.",
    "note": TRUST + " d=2 quick, 3 thorough. Close timeout 10 s, receive timeout 7 s, heartbeat 6 s of virtual time (1 s grace); the clock never advances while callbacks "
            "are queued; the close-code clause is only judged when the decisive peer event met a settled session and no timer option or cancellation took part.",
}

CHECKS["C04"] = {
    "engine": "SEQ",
    "design_ref": "§3 C04, §2.4, §2.5",
    "technique": "exhaustive code-point / 2-gram injection through every outbound text slot + explicit-state BFS over StreamWriter op sequences + payload size enumeration",
    "text": "inject: every code point of the tier's set (all of U+0000-U+017F plus line separators, surrogates, look-alikes of CR/LF, plane boundaries; thorough: the "
            "whole BMP below U+3000, the surrogate and U+FE00-U+FFFF ranges and a stride over the astral planes) and every 2-gram over {CR, LF, NUL, HT, SP, VT, DEL, "
            "NEL, U+2028, ':', 'a'} is placed at the start, middle and end of each of 32 outbound slots (client method, target, query, header name/value, cookie "
            "name/value, User-Agent, Host, URL user; server reason, header name/value, content type, set_cookie name/value/domain/path/samesite, redirect location, "
            "ETag; multipart part header name/value, Content-Disposition fields, FormData name/filename/content type) and sent through ClientSession, "
            "web.Application or MultipartWriter down to transport.write; an independent splitter on CRLF, bare CR and bare LF must see the benign message's line "
            "structure, or nothing of the supplied text may be written.  writer: BFS over all sequences up to depth 4 (6) of 9 StreamWriter ops x 6 framing modes; "
            "the bytes after the head must chunk-decode / inflate to exactly what was written, one terminator, nothing after it.  sizes: 10 payload classes x 8 "
            "sizes x read offsets, 0-3 part multiparts incl. non-ASCII part headers, FormData variants: size == bytes written, Content-Length on the wire == body. The writer BFS includes declared-length modes (body on the wire == written[:length]).",
    "note": TRUST + " A server-side refusal is a clean 500 that carries none of the supplied text; the Date field is masked; set_eof() is excluded from the compressed "
            "writer modes and nothing is written after an end-of-message op (documented contract).",
}

CHECKS["C19"] = {
    "engine": "STREAM",
    "design_ref": "§3 C19, §2.5",
    "technique": "exhaustive part-list x segmentation enumeration through the real MultipartWriter/FormData and MultipartReader + every single-byte mutation / truncation for termination",
    "text": "roundtrip: about 500 part lists (every single part over 17 contents - boundary look-alikes, CR/LF tails, sizes at the 8192/16384 thresholds - x transfer "
            "encoding {none, base64, quoted-printable, binary} x content encoding {none, gzip, deflate}, header and Content-Disposition variants with quotes, spaces, "
            "percent signs and non-ASCII names, every ordered pair (triple in thorough) of a core set, nested and FormData bodies) are serialised by the real writer "
            "and fed to a real StreamReader under every single cut and byte-at-a-time (<= 400 bytes) or every cut within 6 bytes of a boundary and at the chunk "
            "thresholds, and read back through read(decode), read_chunk(64 / 8192)+decode, readline and release; parts, headers, names, filenames and content must "
            "equal the input, size must equal the bytes written.  termination: every single-byte deletion, duplication, substitution (6 symbols) and truncation of 5 "
            "small bodies x 3 reading modes must end in parts or an error within the step horizon.  limits: header size/count and client_max_size cases x cuts. Also partial consumption: one readline()/read_chunk() then next(), nested readers skipped or left half-read; forms with the _charset_ field; every ordered pair of part encodings. The same bodies are also produced through as_bytes(), transfer-encoded form fields are read through Request.post() under every cut, and bodies of 70 parts check that per-part limits are per part.",
    "note": TRUST + " Contents that contain the delimiter at a line start are not valid multipart material and are excluded; a name or filename may come back "
            "percent-encoded if it decodes to the original; every reader run is under a wall-clock deadline (a loop becomes a violation).",
}

CHECKS["C15"] = {
    "engine": "SEQ",
    "design_ref": "§3 C15",
    "technique": "exhaustive request-target and Range/conditional-header enumeration against a real static route over a scratch directory tree with symlinks",
    "text": "traversal: every target of up to 2 (3 thorough) segments over 19 segment forms (.., ., %2e%2e, .%2E, %2f, %5c, backslash, empty, C:, %00, names of "
            "files, directories, symlinks to an inside file / outside file / outside directory, a sibling directory sharing the root's name prefix, encoded traversal "
            "strings) plus 19 classic payloads, sent as raw request lines to a real web.Application with add_static, for follow_symlinks x show_index; every file's "
            "content names its real location, so a 200/206 body must be an inside file (or reached through a named symlink when following is on) and listings appear "
            "only with show_index.  ranges: 96 well-formed and 14 malformed Range values x file sizes {0,1,2,5} x 13 conditional-header cases x GET/HEAD; status, "
            "Content-Range, Content-Length and body must be mutually consistent and equal the RFC 9110 slice; preconditions must give 304/412 without a body. Conditional requests that echo the ETag the server actually sent (plain file and pre-compressed sibling), and If-Range with entity-tags, are part of the range section.",
    "note": TRUST + " The tree lives in a scratch directory created and removed by the check; file I/O executor jobs run inline and loop.sendfile is unavailable "
            "(aiohttp's fallback path); a malformed Range may be ignored or refused; POSIX only.",
}

CHECKS["C17"] = {
    "engine": "SCHED",
    "design_ref": "§3 C17",
    "technique": "exhaustive redirect-chain enumeration through a real ClientSession against recording scripted origins, judged by a secret-confinement model",
    "text": "Every redirect chain of 1 hop (all 16 origin pairs x 5 statuses x Location forms x 4 methods x body kinds), 2 hops (all 64 origin triples x status pairs x "
            "methods/bodies; every quadruple in thorough), chains where credentials enter through a Location header or the caller's URL, non-HTTP / unparsable "
            "targets and max_redirects 1..3 is followed by a real ClientSession with a real CookieJar over the in-memory connector; each scripted origin records "
            "the requests it receives through the independent RFC 9112 reader.  Judged per hop: caller Authorization / Cookie / Proxy-Authorization / cookies= only "
            "while the whole chain stayed on the first origin (no resurrection on A->B->A), Location credentials only on their own origin, jar cookies re-selected "
            "for the hop's host, method and body per the documented table, request count vs max_redirects, refusal of non-HTTP targets, history order, every "
            "connection released. Also 3xx responses without Location (first hop, behind a redirect, at the max_redirects boundary). Chains of three mixed hops, compress/expect100 request options, a caller-supplied Host header, max_redirects=0, and a pooled connection that dies as the redirected request arrives (transparent retry) are included.",
    "note": TRUST + " A redirect chain is sequential, so the default schedule is the only schedule; TLS is not modelled (an https origin is a distinct connection key).",
}

CHECKS["C09"] = {
    "engine": "SCHED",
    "design_ref": "§3 C09, §2.1-2.3",
    "technique": "deviation-bounded exhaustive exploration of wire segmentation x consumer read pattern on the real client protocol/parser/StreamReader, plus exhaustive bit-flip / truncation enumeration and a server-side size enumeration",
    "text": "sched: about 110 scenarios (body family: empty, text, 512 KiB bomb, mixed bytes, multi-member gzip x coding identity/gzip/zlib-deflate/raw-deflate/br/zstd x "
            "framing length/chunked/until-close x read_bufsize 1..8192 x consumer pattern readany / read(n) / read(1) / readchunk / read() / idle variants) run a real "
            "ResponseHandler + parser + StreamReader on the in-memory wire, where pause_reading really stops delivery; every schedule with <= d deviations over segment "
            "sizes (all, 300, 7, 1, head end, next line), peer close and consumer wake-ups is executed.  Reads must equal the reference decode, the consumer must "
            "reach end-of-body (blocked consumer with a paused transport or with all data delivered = violation), resident decoded bytes are bounded at every pass. "
            "corrupt: every single-bit flip and every truncation of a short body per coding x framing x 2 segmentations must end in a payload error or in exactly the "
            "bytes a streaming reference decoder accepts.  server: coding x client_max_size x body size x read()/post() x framing x segment size: 413 above the limit, "
            "never more than client_max_size returned.",
    "note": TRUST + " d=2 quick, 3 thorough. Resident bound = 4 x read_bufsize + largest segment + 128 KiB (codec block granularity; brotli emits up to ~96 KiB "
            "whatever the limit); read() without a size lifts the limit by design and is not judged for memory; reference decoders: zlib, gzip, brotli, backports.zstd.",
}

CHECKS["C18"] = {
    "engine": "SCHED",
    "design_ref": "§3 C18, §2.1-2.3",
    "technique": "exhaustive fault-placement enumeration (stall phase x timeout kind x cancellation point) of a real ClientSession/TCPConnector under virtual time",
    "text": "About 150 scenarios = 12 stall phases (pool slot, DNS, TCP connect, request-body write against a full socket buffer, before / inside the status line, "
            "inside a header, before the body, inside a chunk, before the chunked terminator, inside a length-framed body, after a flow-control pause and resume) x "
            "timeout kind (total, connect, sock_connect, sock_read) x value below and above the 5 s ceiling threshold x with/without a sibling request sharing the "
            "pool queue or the in-flight DNS lookup, plus healthy exchanges; every schedule with <= d deviations over DNS/TCP completion order, I/O, the clock and "
            "cancellation of the stalled request at any loop pass (alone, or together with a new request to the same host in the same pass).  Judged: timeout error "
            "within the bound (+1 s when ceiled) in the phases the kind covers, connection closed and never reused, pool counters and waiters back to zero, no task "
            "left, sibling and follow-up requests answered. Also a shared DNS lookup answered in the same loop iteration as the cancellation of its other waiter.",
    "note": TRUST + " d=1 quick, 2 thorough. Real TCPConnector with a scripted resolver; aiohttp.connector.aiohappyeyeballs.start_connection and create_connection are "
            "rebound to the in-memory wire; the clock never advances while callbacks are queued.",
}

CHECKS["C02"] = {
    "engine": "SCHED",
    "design_ref": "§3 C02, §2.1-2.3",
    "technique": "deviation-bounded exhaustive schedule exploration of a real ClientSession talking to a real web.Application over the in-memory wire",
    "text": "About 190 scenarios = request-shape grammar (7 methods; paths with encoded, non-ASCII and reserved characters; repeated / non-ASCII / empty header "
            "values; cookies; bodies bytes / str / BytesIO / async iterable / JSON / urlencoded and multipart FormData at sizes 0,1,2047,2048,2049,65536,65537; "
            "chunked; deflate / gzip; Expect: 100-continue; HTTP/1.0; Connection: close; handlers that do not read the body) against a canonical handler, plus "
            "response-shape grammar (200/201/204/304/404/500; HEAD; Response with bytes / text / JSON / BytesIO / file; StreamResponse with 0-3 writes; chunked; "
            "compression; explicit length; force_close; custom reason; repeated headers; HTTP/1.0 client) against a canonical request.  Both ends are real; the "
            "bytes of each direction are delivered whole, up to the head end or next line, 1 byte or 2048 bytes at a time, and every schedule with <= d "
            "deviations is run.  What the handler saw must equal what was issued, what the caller got must equal what was returned, both ends must agree on "
            "keep-alive at rest, and a second request on the session must be answered. Also client options (read_bufsize, sock_read) with idle time before the second request. A second request carrying the caller's own Host header, retried after the server dropped the idle connection, must arrive unchanged.",
    "note": TRUST + " d=1 quick, 2 thorough. Repeated field lines are compared in their combined form (the parser's headers mapping joins them); file bodies come "
            "from scratch temp files without kernel sendfile; handlers that the API refuses (chunked on HTTP/1.0, chunked FileResponse) are not in the grammar.",
}
