#!/usr/bin/env python3
"""Confirm a seeded defect and record it under /verif/seeded/<name>/.

usage: seed.py <name> <mutant_dir> <scratch_worktree> <check ids comma-sep> [--no-suite] [--tier quick]

 1. the patch applies to the clean scratch worktree; the demonstration passes
    without it and fails with it (run in the worktree);
 2. the repository's whole pinned suite still passes with the patch
    (tools/run_baseline.py on the worktree);
 3. the patch is applied to /repo, the named checks are run, /repo is restored;
 4. patch.diff, demo, meta.json (with everything that was run) -> seeded/<name>/.
"""
import glob
import json
import os
import shutil
import subprocess
import sys
import time

VERIF = os.path.dirname(os.path.dirname(os.path.abspath(__file__)))


def sh(cmd, cwd=None, env=None, timeout=3600):
    e = dict(os.environ)
    e.update(env or {})
    r = subprocess.run(cmd, shell=True, cwd=cwd, env=e, capture_output=True, text=True, timeout=timeout)
    return r.returncode, (r.stdout + r.stderr)


def main():
    args = [a for a in sys.argv[1:] if not a.startswith("--")]
    name, mdir, wt, checks = args[:4]
    no_suite = "--no-suite" in sys.argv
    tier = "thorough" if "--thorough" in sys.argv else "quick"
    patch = os.path.join(mdir, "patch.diff")
    demos = [p for p in glob.glob(os.path.join(mdir, "*.py"))]
    assert os.path.exists(patch) and demos, "patch.diff and a demo are required"
    demo = demos[0]
    meta_in = {}
    if os.path.exists(os.path.join(mdir, "meta.json")):
        meta_in = json.load(open(os.path.join(mdir, "meta.json")))
    log = {}
    rc, out = sh("git checkout -- . && git status --porcelain -- aiohttp", cwd=wt)
    assert rc == 0 and not out.strip(), out
    env = {"PYTHONPATH": wt, "AIOHTTP_NO_EXTENSIONS": "1"}
    is_pytest = os.path.basename(demo).startswith("test_")
    demo_cmd = (f"/venv/bin/python -m pytest -q -p no:cacheprovider {demo}" if is_pytest else f"/venv/bin/python {demo}")
    rc0, out0 = sh(demo_cmd, cwd=wt, env=env, timeout=600)
    log["demo_clean_rc"] = rc0
    rc, out = sh(f"git apply {patch}", cwd=wt)
    assert rc == 0, "patch does not apply: " + out
    try:
        rc1, out1 = sh(demo_cmd, cwd=wt, env=env, timeout=600)
        log["demo_patched_rc"] = rc1
        log["demo_patched_tail"] = out1[-400:]
        if not no_suite:
            rcs, outs = sh(f"python3 {VERIF}/tools/run_baseline.py {wt} -n 12", timeout=3600)
            log["suite_rc"] = rcs
            log["suite_head"] = outs.splitlines()[0] if outs else ""
    finally:
        sh("git checkout -- .", cwd=wt)
    ok_demo = rc0 == 0 and rc1 != 0
    print(f"demo: clean rc={rc0} patched rc={rc1} -> {'OK' if ok_demo else 'NOT CONFIRMED'}")
    if not no_suite:
        print(f"suite with patch: rc={log['suite_rc']} {log['suite_head']}")
    # --- run the checks against the patched tree.  Default: the scratch worktree through
    # VERIF_REPO (so /repo stays usable meanwhile); --in-repo applies the patch to /repo itself.
    in_repo = "--in-repo" in sys.argv
    target = "/repo" if in_repo else wt
    if in_repo:
        rc, out = sh("git status --porcelain -- aiohttp", cwd="/repo")
        assert not out.strip(), "/repo has uncommitted changes"
    else:
        # the worktree must be at /repo's HEAD so that only the patch differs
        sh("git checkout -q --detach $(git -C /repo rev-parse HEAD)", cwd=wt)
    rc, out = sh(f"git apply {patch}", cwd=target)
    results = {}
    if rc != 0:
        print("patch does not apply to /repo HEAD:", out[-300:])
        results["apply"] = "failed"
    else:
        try:
            for cid in checks.split(","):
                t0 = time.time()
                rcc, outc = sh(f"./check {cid} --tier {tier}", cwd=VERIF, timeout=7200,
                               env={} if in_repo else {"VERIF_REPO": wt, "VERIF_EVIDENCE_DIR": "/tmp/seed-evidence"})
                sigs = [l.strip()[:300] for l in outc.splitlines() if l.strip().startswith("sig=")]
                results[cid] = {"rc": rcc, "wall_s": round(time.time() - t0, 1), "sigs": sigs[:6], "tier": tier,
                                "tree": "patch applied to /repo" if in_repo else "scratch worktree at /repo HEAD + patch, via VERIF_REPO"}
                print(f"[{cid}] rc={rcc} ({results[cid]['wall_s']}s)")
                for s_ in sigs[:4]:
                    print("    ", s_[:240])
                if rcc == 2:
                    print(outc[-1500:])
        finally:
            sh("git checkout -- .", cwd=target)
    dst = os.path.join(VERIF, "seeded", name)
    os.makedirs(dst, exist_ok=True)
    shutil.copy(patch, os.path.join(dst, "patch.diff"))
    shutil.copy(demo, os.path.join(dst, os.path.basename(demo)))
    prev = {}
    if os.path.exists(os.path.join(dst, "meta.json")):
        prev = json.load(open(os.path.join(dst, "meta.json")))
    meta = {
        "property": meta_in.get("property", name.split("-")[0]),
        "summary": meta_in.get("summary", ""),
        "needs": meta_in.get("needs", ""),
        "author": "independent sub-agent given only the property text and a scratch worktree",
        "author_tests_run": meta_in.get("tests_run", ""),
        "confirmed": {
            "demo_cmd": demo_cmd + f"   (cwd={wt}, PYTHONPATH={wt})",
            "demo_passes_on_clean_tree": rc0 == 0,
            "demo_fails_with_patch": rc1 != 0,
            "pinned_suite_with_patch": ((prev.get("confirmed") or {}).get("pinned_suite_with_patch") if no_suite
                                        else {"rc": log["suite_rc"], "summary": log["suite_head"]}),
        },
        "checks": results,
        "detected_by": sorted(c for c, r in results.items() if isinstance(r, dict) and r["rc"] == 1),
    }
    json.dump(meta, open(os.path.join(dst, "meta.json"), "w"), indent=1)
    print("recorded", dst, "detected_by", meta["detected_by"])


if __name__ == "__main__":
    main()
