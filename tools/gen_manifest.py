#!/usr/bin/env python3
"""Regenerate /verif/MANIFEST.json from the table below and validate it."""
import json
import os
import subprocess
import sys

HERE = os.path.dirname(os.path.dirname(os.path.abspath(__file__)))
sys.path.insert(0, HERE)
from tools.manifest_table import CHECKS, NOT_APPLICABLE  # noqa: E402

props = [json.loads(l) for l in open(os.path.join(HERE, "properties.jsonl"))]
ids = [p["id"] for p in props]

checks = []
for pid in ids:
    if pid not in CHECKS:
        continue
    c = CHECKS[pid]
    checks.append(
        {
            "property_id": pid,
            "quick_cmd": f"./check {pid} --tier quick",
            "thorough_cmd": f"./check {pid} --tier thorough",
            "evidence_file": f"/verif/evidence/{pid}.json",
            "replay_cmd_template": f"./check {pid} --replay {{path}}",
            "engine": c["engine"],
            "level_claimed": {
                "category": "model_checking",
                "text": c["text"],
                "design_ref": c["design_ref"],
            },
            "level_note": c["note"],
            "technique": c["technique"],
        }
    )
na = [{"property_id": pid, "reason": NOT_APPLICABLE.get(pid, "harness not built yet; not claimed")}
      for pid in ids if pid not in CHECKS]

manifest = {
    "version": 1,
    "setup_cmd": "cd /verif && ./tools/setup.sh",
    "hooks": {
        "guard": "AIOHTTP_VERIF",
        "enable": "no source hooks: every seam is a module global rebound by the harness at run time (DESIGN §1); "
                  "checks import /repo's working tree directly with a fresh `python -B` process",
        "baseline_off_cmd": "cd /repo && /venv/bin/python -m pytest -ra -q -p no:cacheprovider --timeout=900 --continue-on-collection-errors",
        "source_commits": [],
        "add_only": True,
    },
    "engines": [
        {"name": "SEQ", "path": "mc/bfs.py", "kind_free_text": "explicit-state BFS over operation histories of the real object vs. reference model, canonical-state dedup with checked merges",
         "serves_properties": [p for p in ids if CHECKS.get(p, {}).get("engine") == "SEQ"]},
        {"name": "SCHED", "path": "mc/explorer.py", "kind_free_text": "deviation-bounded stateless exploration of real asyncio code on a virtual event loop with an in-memory wire",
         "serves_properties": [p for p in ids if CHECKS.get(p, {}).get("engine") == "SCHED"]},
        {"name": "STREAM", "path": "mc/streams.py", "kind_free_text": "exhaustive byte-stream / segmentation enumeration fed to the real incremental parsers and codecs",
         "serves_properties": [p for p in ids if CHECKS.get(p, {}).get("engine") == "STREAM"]},
    ],
    "checks": checks,
    "not_applicable": na,
    "notes": "All checks: cwd=/verif, `./check <id> --tier quick|thorough`; exit 0 / exit 1 + VIOLATION line / exit 2 = harness broken (never a pass). Known findings: /verif/known_findings.json.",
}
out = os.path.join(HERE, "MANIFEST.json")
with open(out, "w") as f:
    json.dump(manifest, f, indent=1)
    f.write("\n")
code = ("import json,sys,jsonschema;"
        "jsonschema.validate(json.load(open(sys.argv[1])),json.load(open('/root/.vp/MANIFEST.schema.json')))")
r = subprocess.run(["/opt/veriftools/pyvenv/bin/python", "-c", code, out], capture_output=True, text=True)
if r.returncode:
    print(r.stderr[-3000:])
    sys.exit(1)
print(f"MANIFEST.json: {len(checks)} checks, {len(na)} not_applicable, valid")
