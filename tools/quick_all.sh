#!/bin/sh
# Runs the quick tier of every check in turn; one summary line per check, non-zero exit if any check fails.
# Run it after every change to /repo, not only the check of the property being worked on: a fix for one property
# has more than once broken another (and the pinned suite did not notice).
cd "$(dirname "$0")/.."
rc=0
for c in ${CHECKS:-C01 C02 C03 C04 C05 C06 C07 C08 C09 C10 C11 C12 C13 C14 C15 C16 C17 C18 C19 C20}; do
  out=$(timeout ${PER_CHECK_TIMEOUT:-2400} ./check $c --tier quick 2>&1); r=$?
  echo "$out" | grep -v "^KNOWN" | grep "VIOLATION\|sig=\|HARNESS\|tier=quick" | cut -c1-300
  [ $r -ne 0 ] && rc=1
done
exit $rc
