#!/usr/bin/env python3
"""Run the repository's pinned test suite and compare with BASELINE.json's stable_pass.
usage: run_baseline.py [repo_dir] [pytest args...]   (exit 0 iff every stable-pass test passed)"""
import json, os, subprocess, sys, tempfile
import xml.etree.ElementTree as ET

repo = sys.argv[1] if len(sys.argv) > 1 and os.path.isdir(sys.argv[1]) else "/repo"
extra = [a for a in sys.argv[1:] if a != repo]
base = json.load(open("/root/.vp/BASELINE.json"))
stable = set(base["stable_pass"])
with tempfile.TemporaryDirectory() as td:
    xml = os.path.join(td, "j.xml")
    cmd = ["/venv/bin/python", "-m", "pytest", "-ra", "-q", "-p", "no:cacheprovider", "--timeout=900",
           "--continue-on-collection-errors", f"--junitxml={xml}", "-x" if False else "-q"] + extra
    env = dict(os.environ)
    env.pop("AIOHTTP_VERIF", None)
    r = subprocess.run(cmd, cwd=repo, env=env, capture_output=True, text=True)
    passed = set()
    failed = set()
    for tc in ET.parse(xml).getroot().iter("testcase"):
        name = tc.get("classname") + "::" + tc.get("name")
        bad = any(ch.tag in ("failure", "error", "skipped") for ch in tc)
        (failed if bad else passed).add(name)
missing = sorted(s for s in stable if s not in passed)
if extra:
    # partial run: only judge tests that were actually collected
    seen = passed | failed
    missing = [m for m in missing if m in seen or any(m.startswith(x.replace("/", ".").replace(".py", "")) for x in extra if x.endswith(".py"))]
print(f"passed={len(passed)} failed_or_skipped={len(failed)} stable={len(stable)} stable_missing={len(missing)}")
for m in missing[:40]:
    print("  MISSING", m)
print(r.stdout[-600:])
sys.exit(1 if missing else 0)
