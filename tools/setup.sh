#!/bin/sh
# Offline setup: nothing to build (pure Python harnesses run against /repo's working tree).
set -e
cd "$(dirname "$0")/.."
mkdir -p evidence replays
/venv/bin/python -B -c "import sys; sys.path.insert(0,'.'); from mc import bind; print('bound to', bind.assert_bound())"
