#!/usr/bin/env python3
"""Re-run, on /repo's current HEAD, the checks that are recorded as catching each seeded change.

usage: recheck_seeded.py [name-glob ...] [--jobs N] [--tier quick]

For every /verif/seeded/<name>/: a scratch worktree of /repo at HEAD (under /tmp, removed at the end) gets the
patch, the checks named in meta.detected_by (or the change's own property if that list is empty) run against it
through VERIF_REPO, and the outcome is written to meta["recheck"].  Nothing in /repo is touched.
A patch that no longer applies is reported as such (the tree moved on under it); it is not a miss.
"""
import fnmatch
import glob
import json
import os
import subprocess
import sys
import time
from concurrent.futures import ThreadPoolExecutor

VERIF = os.path.dirname(os.path.dirname(os.path.abspath(__file__)))


def sh(cmd, cwd=None, env=None, timeout=7200):
    e = dict(os.environ)
    e.update(env or {})
    r = subprocess.run(cmd, shell=True, cwd=cwd, env=e, capture_output=True, text=True, timeout=timeout)
    return r.returncode, r.stdout + r.stderr


def main():
    argv = sys.argv[1:]
    args = [a for i, a in enumerate(argv) if not a.startswith("--") and not (i and argv[i - 1] in ("--jobs", "--tier"))]
    jobs = int(next((sys.argv[i + 1] for i, a in enumerate(sys.argv) if a == "--jobs"), "3"))
    tier = next((sys.argv[i + 1] for i, a in enumerate(sys.argv) if a == "--tier"), "quick")
    names = sorted(os.path.basename(os.path.dirname(p)) for p in glob.glob(os.path.join(VERIF, "seeded", "*", "meta.json")))
    if args:
        names = [n for n in names if any(fnmatch.fnmatch(n, a) for a in args)]
    head = sh("git -C /repo rev-parse --short HEAD")[1].strip()
    wts = []
    for k in range(jobs):
        wt = f"/tmp/verif-recheck-{os.getpid()}-{k}"
        rc, out = sh(f"git -C /repo worktree add -q --detach {wt} HEAD")
        assert rc == 0, out
        wts.append(wt)
    free = list(wts)

    def one(name):
        wt = free.pop()
        try:
            d = os.path.join(VERIF, "seeded", name)
            meta = json.load(open(os.path.join(d, "meta.json")))
            checks = meta.get("detected_by") or [meta.get("property", name.split("-")[0])]
            rec = {"head": head, "tier": tier, "checks": {}}
            rc, out = sh(f"git checkout -q -- . && git apply {os.path.join(d, 'patch.diff')}", cwd=wt)
            rec["applies"] = rc == 0
            if rc == 0:
                try:
                    for c in checks:
                        t0 = time.time()
                        rcc, outc = sh(f"./check {c} --tier {tier}", cwd=VERIF,
                                       env={"VERIF_REPO": wt, "VERIF_EVIDENCE_DIR": f"/tmp/verif-recheck-evidence-{os.getpid()}"})
                        sigs = [l.strip()[4:160] for l in outc.splitlines() if l.strip().startswith("sig=")]
                        rec["checks"][c] = {"rc": rcc, "wall_s": round(time.time() - t0, 1), "sigs": sigs[:3]}
                finally:
                    sh("git checkout -q -- .", cwd=wt)
            rec["caught"] = sorted(c for c, r in rec["checks"].items() if r["rc"] == 1)
            meta["recheck"] = rec
            json.dump(meta, open(os.path.join(d, "meta.json"), "w"), indent=1)
            print(f"{name:8s} applies={rec['applies']!s:5s} caught={rec['caught']} "
                  + " ".join(f"{c}:rc{r['rc']}" for c, r in rec["checks"].items()), flush=True)
            return name, rec
        finally:
            free.append(wt)

    try:
        with ThreadPoolExecutor(jobs) as ex:
            res = list(ex.map(one, names))
    finally:
        for wt in wts:
            sh(f"git -C /repo worktree remove --force {wt}")
        sh("git -C /repo worktree prune")
        sh(f"rm -rf /tmp/verif-recheck-evidence-{os.getpid()}")
    missed = [n for n, r in res if r["applies"] and not r["caught"]]
    stale = [n for n, r in res if not r["applies"]]
    print(f"rechecked {len(res)} on {head}: caught {sum(1 for _n, r in res if r['caught'])}, not applicable any more {stale}, missed {missed}")
    return 1 if missed else 0


if __name__ == "__main__":
    sys.exit(main())
