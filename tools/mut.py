#!/usr/bin/env python3
"""mut.py <check ids comma-sep> <file> <old> <new> : apply a textual mutation to /repo, run checks, revert."""
import subprocess, sys
ids, path, old, new = sys.argv[1:5]
p = "/repo/" + path
s = open(p).read()
if s.count(old) < 1:
    print("PATTERN NOT FOUND"); sys.exit(2)
open(p, "w").write(s.replace(old, new, 1))
try:
    for i in ids.split(","):
        r = subprocess.run(["./check", i], cwd="/verif", capture_output=True, text=True)
        lines = [l for l in r.stdout.splitlines() if "sig=" in l or l.startswith(("KNOWN", "C")) ]
        print(f"[{i}] rc={r.returncode}", *(l[:260] for l in lines[:4]), sep="\n   ")
        if r.returncode == 2:
            print(r.stderr[-800:])
finally:
    subprocess.run(["git", "-C", "/repo", "checkout", "--", path])
