#!/bin/sh
# Runs the thorough tier of every check in turn (used through `vp run`); prints one summary line per check.
cd "$(dirname "$0")/.."
out=$(mktemp)
for c in ${CHECKS:-C01 C02 C03 C04 C05 C06 C07 C08 C09 C10 C11 C12 C13 C14 C15 C16 C17 C18 C19 C20}; do
  start=$(date +%s)
  timeout ${PER_CHECK_TIMEOUT:-5400} ./check $c --tier thorough > "$out" 2>&1
  rc=$?
  grep -v "^KNOWN" "$out" | tail -6 | cut -c1-400
  echo "== $c exit=$rc took $(( $(date +%s) - start ))s"
done
rm -f "$out"
