"""C10 Parsers are total and enforce their configured limits.

STREAM engine.  Monitors on the real request/response parsers for every stream
of the C01 corpus, a hostile-target corpus, the response corpus with byte
mutations, and limit-approach inputs (limit-1 / limit / limit+1 in every
syntactic position) x all single cuts x limit configurations:

  * only HttpProcessingError may leave feed_data/feed_eof;
  * limit+1 inputs are rejected, limit-1/limit inputs are not rejected for size;
  * bytes retained between feeds stay within what the limits allow;
  * deterministic work (Python call count) grows linearly on doubling families;
and through the real server (400 + close, nothing escapes data_received) and the
real client protocol (a client error is set, nothing escapes).  DESIGN §3 C10.
"""
from __future__ import annotations

import sys

from mc import httpcorpus as hc
from mc import httpdrv
from mc.core import Part

PROPERTY = "C10"

CONFIGS = {
    "default": {},
    "32/64/4": {"max_line_size": 32, "max_field_size": 64, "max_headers": 4},
    "64/32/4": {"max_line_size": 64, "max_field_size": 32, "max_headers": 4},
    "40/40/6": {"max_line_size": 40, "max_field_size": 40, "max_headers": 6},
    "48/96/8+buf2": {"max_line_size": 48, "max_field_size": 96, "max_headers": 8, "limit": 2},
}


# configurations with room for many lines, for fields folded over several continuation lines
FOLD_CONFIGS = {
    "64/120/20": {"max_line_size": 64, "max_field_size": 120, "max_headers": 20},
    "40/64/16": {"max_line_size": 40, "max_field_size": 64, "max_headers": 16},
}
MAIN_CONFIGS = list(CONFIGS)
CONFIGS.update(FOLD_CONFIGS)


def _limits(cfg):
    return cfg.get("max_line_size", 8190), cfg.get("max_field_size", 8190), cfg.get("max_headers", 128)


def run_stream(part: Part, stream: bytes, cuts, kind, cfgname, pkw, label, expect=None):
    """One segmented run with all monitors. expect: None | 'reject' | 'accept'."""
    cfg = CONFIGS[cfgname]
    mls, mfs, mh = _limits(cfg)
    d = httpdrv.Drv(kind, **cfg, **pkw)
    prev = 0
    segs = list(cuts) + [len(stream)]
    case = {"stream": stream, "cuts": list(cuts), "kind": kind, "config": cfgname, "pkw": pkw, "label": repr(label)}

    def V(sig, text):
        part.violation(f"C10:{kind}:{sig}", f"{text} | config={cfgname} cuts={list(cuts)[:5]} stream={stream[:100]!r}", case)

    for c in segs:
        seg = stream[prev:c]
        prev = c
        d.feed(seg)
        part.count("transitions")
        if d.error is not None:
            break
        # retained-bytes monitor
        p = d.parser
        if len(p._tail) > max(mls, mfs) + 1 and not p._upgraded:
            V("retained:tail", f"{len(p._tail)} bytes kept for an incomplete line (limits {mls}/{mfs})")
        if sum(len(x) for x in p._lines) > mls + mh * mfs:
            V("retained:lines", f"{sum(len(x) for x in p._lines)} bytes of head lines kept (limits {mls}+{mh}x{mfs})")
        pp = p._payload_parser
        if pp is not None:
            if len(pp._chunk_tail) > max(mls, mfs) + 2 and pp._type.name == "PARSE_CHUNKED" and pp._chunk.name != "PARSE_CHUNKED_CHUNK":
                V("retained:chunk-tail", f"{len(pp._chunk_tail)} bytes kept for an incomplete chunk/trailer line")
            if sum(len(x) for x in pp._trailer_lines) > mh * mfs:
                V("retained:trailers", f"{sum(len(x) for x in pp._trailer_lines)} bytes of trailer lines kept")
    if d.error is None:
        d.feed_eof()
    out = d.outcome()
    part.count("executions")
    err = out["error"]
    rejected = err is not None or any(m[4] is not None for m in out["msgs"])
    if err is not None and err[0] != "http":
        V(f"foreign-exception:{err[1]}:{_origin(d.error)}", f"{type(d.error).__name__}: {d.error} left the parser")
    if expect == "reject" and not rejected:
        V(f"limit-not-enforced:{label[0] if isinstance(label, tuple) else label}", "input above the configured limit was accepted")
    if expect == "accept" and rejected:
        what = err[1] if err else "payload:" + str([m[4] for m in out["msgs"] if m[4]][0])
        if what in ("LineTooLong", "payload:LineTooLong") or (err and "Too many" in err[2]) or "BadHttpMessage" in what and err and "Too many" in err[2]:
            V(f"limit-too-strict:{label[0] if isinstance(label, tuple) else label}", f"input within the configured limit was rejected with {what}")
    part.outcome((kind, cfgname, err, len(out["msgs"])))
    part.state((kind, err, tuple(m[0][0] for m in out["msgs"])))
    return out


def _origin(exc) -> str:
    """Innermost aiohttp function the exception travelled through (narrow signature)."""
    tb = exc.__traceback__
    last = "?"
    while tb is not None:
        fn = tb.tb_frame.f_code.co_filename
        if "/aiohttp/" in fn:
            last = fn.rsplit("/", 1)[1] + ":" + tb.tb_frame.f_code.co_name
        tb = tb.tb_next
    return last


# ---------------------------------------------------------------- limit expectations
def limit_cases(cfgname):
    cfg = CONFIGS[cfgname]
    mls, mfs, mh = _limits(cfg)
    if mls > 1000:
        return
    for label, s in hc.limit_streams(mls, mfs, mh):
        # label: '<element>@<line|field><+d>' or 'nfields=n' ...
        expect = None
        if "@" in label:
            elem, rest = label.split("@")
            which, d = rest[:-2], int(rest[-2:])
            applies = {"reqline": "line", "reqline2": "line", "reqline3": "line", "field": "field", "fieldname": "field", "firstfield": "field",
                       "chunkext": "line", "chunksize": "line", "lastchunkext": "line", "trailer": "field"}[elem]
            lim_here = mls if applies == "line" else mfs
            L = (mls if which == "line" else mfs) + d
            expect = "reject" if L > lim_here else "accept"
            if elem == "trailer" and expect == "accept" and 4 + 1 > mh:
                # max_headers is a budget of lines shared by the head (start line, 2 fields, empty line) and the
                # trailer section: with the head using all of it, refusing the trailer is within the configuration
                expect = None
        elif label.startswith("nfields="):
            n = int(label.split("=")[1])     # n-1 extra fields + Host = n fields
            expect = "reject" if n > mh else None
        elif label.startswith("ntrailers="):
            n = int(label.split("=")[1])
            expect = "reject" if n > mh else None
        yield (label, mls, mfs, mh), s, expect


# ---------------------------------------------------------------- work monitor
class _Calls:
    def __init__(self):
        self.n = 0

    def __call__(self, frame, event, arg):
        if event == "call" or event == "c_call":
            self.n += 1


def _count_calls(fn):
    c = _Calls()
    sys.setprofile(c)
    try:
        fn()
    finally:
        sys.setprofile(None)
    return c.n


def _families():
    req = b"GET /%d HTTP/1.1\r\nHost: a\r\n\r\n"
    yield "pipeline", lambda n: (b"".join(req % i for i in range(n)), (), "request", {})
    yield "empty-lines", lambda n: (b"\r\n" * n + req % 0, (), "request", {})
    yield "chunks", lambda n: (b"POST / HTTP/1.1\r\nHost: a\r\nTransfer-Encoding: chunked\r\n\r\n" + b"1\r\nx\r\n" * n + b"0\r\n\r\n", (), "request", {})
    yield "chunks-bytewise", lambda n: ((s := b"POST / HTTP/1.1\r\nHost: a\r\nTransfer-Encoding: chunked\r\n\r\n" + b"1\r\nx\r\n" * n + b"0\r\n\r\n"),
                                        tuple(range(1, len(s))), "request", {})
    yield "body-bytewise", lambda n: ((s := b"POST / HTTP/1.1\r\nHost: a\r\nContent-Length: %d\r\n\r\n" % n + b"x" * n),
                                      tuple(range(1, len(s))), "request", {})
    yield "long-line-bytewise", lambda n: ((s := b"GET /" + b"p" * n + b" HTTP/1.1\r\nHost: a\r\n\r\n"), tuple(range(1, len(s))), "request", {})
    yield "ext-bytewise", lambda n: ((s := b"POST / HTTP/1.1\r\nHost: a\r\nTransfer-Encoding: chunked\r\n\r\n1;" + b"e" * n + b"\r\nx\r\n0\r\n\r\n"),
                                     tuple(range(1, len(s))), "request", {})
    yield "resp-1xx", lambda n: (b"HTTP/1.1 100 Continue\r\n\r\n" * n + b"HTTP/1.1 200 OK\r\nContent-Length: 0\r\n\r\n", (), "response", {})
    yield "resp-until-eof-bytewise", lambda n: ((s := b"HTTP/1.1 200 OK\r\n\r\n" + b"y" * n), tuple(range(1, len(s))), "response", {"read_until_eof": True})
    yield "garbage-lf", lambda n: (b"\n" * n, (), "request", {})
    yield "colon-headers", lambda n: (b"GET / HTTP/1.1\r\nHost: a\r\n" + b"a:" * n + b"\r\n\r\n", (), "request", {})


def work_job(part: Part):
    for name, mk in _families():
        counts = []
        sizes = (400, 800, 1600, 3200)
        for n in sizes:
            stream, cuts, kind, pkw = mk(n)

            def go():
                d = httpdrv.Drv(kind, **pkw)
                prev = 0
                for c in cuts:
                    d.feed(stream[prev:c])
                    prev = c
                d.feed(stream[prev:])
                d.feed_eof()

            counts.append(_count_calls(go))
            part.count("executions")
        part.count("transitions", sum(counts))
        # linear: doubling the input at most doubles the calls (+ slack); compare the last two doublings
        r = counts[-1] / max(1, counts[-2])
        part.outcome(("work", name, round(r, 1)))
        if r > 2.5:
            part.violation(f"C10:work-superlinear:{name}", f"call counts {dict(zip(sizes, counts))} grow by x{r:.2f} per doubling",
                           {"kind": "work", "family": name})
        part.sample({"work_family": name, "calls": dict(zip(map(str, sizes), counts))})


# ---------------------------------------------------------------- server / client
async def _reading_handler(request):
    from aiohttp import web
    body = await request.read()
    return web.Response(text=f"read{len(body)}")


_SPINS: list = []


async def _touching_handler(request):
    """Looks at everything a handler may look at; what it cannot have, it does without."""
    from aiohttp import web

    from mc import core

    seen = []
    for attr in ("url", "host", "scheme", "remote", "cookies", "content_type", "charset", "content_length", "if_modified_since",
                 "if_match", "if_none_match", "if_range", "http_range", "forwarded", "keep_alive", "query", "rel_url", "secure"):
        try:
            with core.deadline(2.0):
                getattr(request, attr)
            seen.append(attr)
        except core.ExecutionTimeout:
            _SPINS.append(attr)
        except Exception:  # noqa: BLE001
            pass
    try:
        await request.text()
    except Exception:  # noqa: BLE001
        pass
    return web.Response(text=f"saw{len(seen)}")


def server_case(part: Part, stream: bytes, label, reading=False):
    from mc.server import serve_stream_app

    h = {False: None, True: _reading_handler, "touch": _touching_handler}[reading]
    del _SPINS[:]
    r = serve_stream_app(stream, handler=h) if h else serve_stream_app(stream)
    part.count("executions")
    part.count("server_runs")
    case = {"kind": "server", "stream": stream, "label": repr(label), "reading": reading}
    for attr in _SPINS:
        part.violation(f"C10:server:request-attribute-does-not-return:{attr}",
                       f"request.{attr} did not return within 2 s of CPU time for {stream[:80]!r}", case)
    if r["escaped"]:
        part.violation(f"C10:server:exception-escapes-data_received:{r['escaped'][0]}",
                       f"{r['escaped']} escaped RequestHandler.data_received for {stream[:80]!r}", case)
    if r["loop_exceptions"]:
        part.violation("C10:server:loop-exception-handler", f"loop exception handler called: {r['loop_exceptions'][:2]} for {stream[:80]!r}", case)
    if not r["escaped"] and not r["closed"] and not r["handler_alive"]:
        part.violation("C10:server:dead-connection",
                       f"connection left open with no handler task and {len(r['responses'])} response(s) for {stream[:80]!r}", case)
    if r["malformed"]:
        part.violation("C10:server:malformed-response", f"server output is not a sequence of well-formed responses: {r['malformed']}", case)
    # an HTTP protocol error in the bytes received (before any EOF) is answered with a 4xx and the connection closed
    o, _d = httpdrv.parse(stream)
    perr = o["error"][1] if o["error"] is not None and o["error"][0] == "http" else next((m[4] for m in o["msgs"] if m[4]), None)
    if perr and not r["escaped"]:
        sts = [x[0] for x in r["responses"] if not 100 <= x[0] < 200]
        if not sts or not 400 <= sts[-1] < 500:
            part.violation(f"C10:server:protocol-error-not-4xx:{perr}:{sts[-1] if sts else 'no-response'}",
                           f"parser reports {perr} for {stream[:80]!r} but the server answered {sts} (closed={r['closed']})", case)
        elif not r["closed"]:
            part.violation("C10:server:protocol-error-not-closed", f"4xx sent for {perr} but the connection stays open: {stream[:80]!r}", case)
    if not perr and o["msgs"] and not r["escaped"] and not r["handler_alive"] and not [x for x in r["responses"] if not 100 <= x[0] < 200]:
        part.violation("C10:server:accepted-request-unanswered",
                       f"the parser accepts {stream[:80]!r} but the server sent no response (closed={r['closed']}, "
                       f"handler_alive={r['handler_alive']})", case)
    return r


def client_case(part: Part, stream: bytes, pkw, label):
    """Feed a response stream to a real ResponseHandler."""
    from aiohttp.client_exceptions import ClientError
    from aiohttp.client_proto import ResponseHandler
    from aiohttp.http_exceptions import HttpProcessingError

    from mc.vloop import VLoop
    from mc.wire import SinkProtocol, pair

    loop = VLoop().hold()
    try:
        proto = ResponseHandler(loop)
        sink = SinkProtocol()
        ct, st = pair(loop, proto, sink)
        proto.connection_made(ct)
        kw = {k: v for k, v in pkw.items() if k in ("read_until_eof",)}
        proto.set_response_params(skip_payload=pkw.get("method") == "HEAD", **kw)
        case = {"kind": "client", "stream": stream, "pkw": pkw, "label": repr(label)}
        try:
            proto.data_received(stream)
        except BaseException as e:  # noqa: BLE001
            part.violation(f"C10:client:exception-escapes-data_received:{type(e).__name__}",
                           f"{type(e).__name__}: {e} escaped ResponseHandler.data_received for {stream[:80]!r}", case)
        loop.drain(50)
        exc = proto.exception()
        if exc is not None and not isinstance(exc, (HttpProcessingError, ClientError)):
            part.violation(f"C10:client:foreign-exception:{type(exc).__name__}", f"protocol error is {exc!r} for {stream[:80]!r}", case)
        if loop.collect_exceptions():
            part.violation("C10:client:loop-exception-handler", f"{loop.exc_contexts[:1]} for {stream[:80]!r}", case)
        part.count("executions")
        part.count("client_runs")
    finally:
        loop.finish()


# ---------------------------------------------------------------- jobs
def _job(job):
    kind = job[0]
    part = Part()
    if kind == "corpus":
        _k, bi, cfgname = job
        name, segs = hc.baselines()[bi]
        full = hc.with_next(segs)
        for d, ms in [(("baseline",), full)] + list(hc.all_single(full)):
            s = hc.render(ms)
            for cuts in [()] + [(i,) for i in range(1, len(s))]:
                run_stream(part, s, cuts, "request", cfgname, {}, (name, d))
    elif kind == "bytes":
        _k, bi = job
        name, segs = hc.baselines()[bi]
        base = hc.render(segs)
        for gen in (hc.byte_substitutions, hc.byte_insertions, hc.byte_deletions):
            for d, s in gen(base + hc.NEXT, len(base)):
                run_stream(part, s, (), "request", "default", {}, (name, gen.__name__, d))
                run_stream(part, s, tuple(range(1, len(s))), "request", "default", {}, (name, gen.__name__, d))
    elif kind == "limits":
        _k, cfgname = job
        for label, s, expect in limit_cases(cfgname):
            for cuts in [()] + [(i,) for i in range(1, len(s))] + [tuple(range(1, len(s)))]:
                run_stream(part, s, cuts, "request", cfgname, {}, label, expect)
            if len(part.samples) < 2:
                part.sample({"limit_case": label[0], "limits": label[1:], "expect": expect, "stream": s})
    elif kind == "folded":
        _k, cfgname = job
        mls, mfs, mh = _limits(CONFIGS[cfgname])
        if mfs <= 1000 and mh >= 6:
            for label, s, expect in hc.folded_streams(mfs):
                for cuts in [()] + [(i,) for i in range(1, len(s))]:
                    run_stream(part, s, cuts, "response", cfgname, {}, (label, mls, mfs), expect)
    elif kind == "unterminated":
        _k, cfgname = job
        mls, mfs, _mh = _limits(CONFIGS[cfgname])
        if mls <= 1000:
            for label, s, step in hc.unterminated_streams(mls, mfs):
                for cuts in (tuple(range(step, len(s), step)), tuple(range(1, len(s))), ()):
                    run_stream(part, s, cuts, "request" if not label.startswith("resp-") else "response", cfgname,
                               {"read_until_eof": True} if label.startswith("resp-") else {}, (label, mls, mfs), "reject")
    elif kind == "targets":
        for label, s in hc.hostile_number_streams():
            for cuts in [(), (len(s) // 2,)]:
                run_stream(part, s, cuts, "request" if not label.startswith("resp-") else "response", "default", {}, label)
            if not label.startswith("resp-"):
                server_case(part, s, label)
            else:
                client_case(part, s, {}, label)
        for label, s in hc.hostile_target_streams():
            for cuts in [()] + [(i,) for i in range(1, len(s))]:
                run_stream(part, s, cuts, "request", "default", {}, label)
            server_case(part, s, label)
        for label, s in hc.hostile_header_streams():
            run_stream(part, s, (), "request", "default", {}, label)
            server_case(part, s, label)
            server_case(part, s, label, reading="touch")
    elif kind == "responses":
        _k, ri, cfgname = job
        label, s, pkw = hc.response_streams()[ri]
        for cuts in [()] + [(i,) for i in range(1, len(s))]:
            run_stream(part, s, cuts, "response", cfgname, pkw, label)
        if cfgname == "default":
            client_case(part, s, pkw, label)
            for gen in (hc.byte_substitutions, hc.byte_insertions, hc.byte_deletions):
                for d, ms in gen(s, min(len(s), 90)):
                    run_stream(part, ms, (), "response", "default", pkw, (label, gen.__name__, d))
                    client_case(part, ms, pkw, (label, gen.__name__, d))
    elif kind == "server":
        _k, bi = job
        name, segs = hc.baselines()[bi]
        seen = set()
        for d, ms in hc.all_single(hc.with_next(segs)):
            key = (d[0], d[1]) if d[0] in ("ins", "del", "dup") else (d[1], d[2])
            if key in seen:
                continue
            seen.add(key)
            server_case(part, hc.render(ms), (name, d))
    elif kind == "server-limits":
        # every limit (and the trailer section's field rules) through the real server, with a handler that ignores
        # the body and one that reads it: a protocol error is a 400 whoever notices it first
        mls, mfs, mh = _limits(CONFIGS["default"])
        extra = [("trailer-dup-" + n.decode(), b"POST / HTTP/1.1\r\nHost: a\r\nTransfer-Encoding: chunked\r\n\r\n1\r\nx\r\n0\r\n"
                  + n + b": a\r\n" + n + b": b\r\n\r\n" + hc.NEXT) for n in (b"Content-Type", b"Host", b"Content-Length", b"X-Any")]
        for label, s in list(hc.limit_streams(mls, mfs, mh)) + extra:
            for reading in (False, True):
                server_case(part, s, ("server-limits", label), reading=reading)
    elif kind == "work":
        work_job(part)
    return part


def run(ctx):
    ctx.rule = (
        "request streams: C01 baselines x every single mutation x every single cut x limit configs, every byte "
        "substitution/insertion/deletion un-cut and byte-at-a-time, hostile targets, limit-1/limit/limit+1 inputs in every "
        "syntactic position x all single cuts; response corpus likewise; monitors: exception class, limit verdict, retained "
        "bytes after every feed, call-count growth on doubling families; outcome distinct by (parser, config, error, #messages)"
    )
    ctx.assumptions += [
        "work is measured as Python call events (sys.setprofile) on enumerated input families of doubling size",
        "retained bytes = len(_tail)+sum(_lines)+len(_chunk_tail)+sum(_trailer_lines) after each feed",
        "a field's size is the length of its whole line, which is what the limit is applied to",
    ]
    nb = len(hc.baselines())
    cfgs = ["default", "32/64/4", "64/32/4"] if ctx.quick else list(MAIN_CONFIGS)
    jobs = [("work",), ("targets",)]
    jobs += [("folded", c) for c in FOLD_CONFIGS]
    for c in cfgs:
        jobs += [("corpus", i, c) for i in range(nb)]
        jobs += [("limits", c), ("unterminated", c)]
        jobs += [("responses", r, c) for r in range(len(hc.response_streams()))]
    jobs += [("bytes", i) for i in range(nb)]
    jobs += [("server", i) for i in range(nb)]
    jobs.append(("server-limits",))
    for part in ctx.pmap(_job, jobs):
        ctx.merge(part)
    ctx.notes["configs"] = cfgs


def replay(case):
    part = Part()
    k = case.get("kind")
    if k == "server":
        server_case(part, case["stream"], case.get("label"), reading=case.get("reading", False))
    elif k == "client":
        client_case(part, case["stream"], case.get("pkw") or {}, case.get("label"))
    elif k == "work":
        work_job(part)
    else:
        # the limit expectation is recomputed from the label
        expect = None
        if case["config"] != "default":
            for label, s, e in limit_cases(case["config"]):
                if s == case["stream"]:
                    expect = e
                    lab = label
                    break
            else:
                lab = case.get("label")
                mls, mfs, _mh = _limits(CONFIGS[case["config"]])
                for ul, us, _s in hc.unterminated_streams(mls, mfs):
                    if us == case["stream"]:
                        expect, lab = "reject", (ul, mls, mfs)
                for fl, fs, fe in hc.folded_streams(mfs):
                    if fs == case["stream"]:
                        expect, lab = fe, (fl, mls, mfs)
        else:
            lab = case.get("label")
        run_stream(part, case["stream"], tuple(case["cuts"]), k, case["config"], case.get("pkw") or {}, lab, expect)
    return part.violations
