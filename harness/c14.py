"""C14 URL dispatch follows the documented resolution rule.

Exhaustive enumeration (SEQ family, DESIGN §3 C14): every route table of the
stated grammar in every registration order is built on a real
`web.Application` (add_route / add_subapp / add_domain), and every request of a
path x method (x Host) lattice is resolved by the real `UrlDispatcher.resolve`
and by the linear reference rule of refs/dispatch.py; handler, match_info,
404-vs-405 and the allowed-method set must agree.  Further sections: url_for o
resolve = identity, and off-site redirects of normalize_path_middleware.
"""
from __future__ import annotations

import functools
import itertools
import re

from aiohttp import web
from yarl import URL
from aiohttp.test_utils import make_mocked_request

from mc.core import Part
from refs import dispatch as ref

PROPERTY = "C14"

ref.compile_template = functools.lru_cache(maxsize=None)(ref.compile_template)
ref.parts_of = functools.lru_cache(maxsize=None)(ref.parts_of)

# ---------------------------------------------------------------- alphabets
SEG1 = ["a", "b", "{x}", "{x:\\d+}", "a{x}", "{t:.*}", "a b", "é", "a+b"]   # a+b: a regex metacharacter in fixed text
SEG2 = ["a", "b", "{y}", "{y:\\d+}", "a{y}", "{u:.*}", "a b"]
METHODS = {"G": ("GET",), "P": ("POST",), "*": ("*",), "GP": ("GET", "POST")}


def templates(full: bool):
    out = []
    for s1 in SEG1:
        for sl in ("", "/"):
            out.append("/" + s1 + sl)
    s2s = SEG2 if full else ["a", "{y}", "a{y}", "{u:.*}", "a b"]
    s1s = SEG1 if full else ["a", "{x}", "a{x}", "a b", "{x:\\d+}"]
    for s1 in s1s:
        for s2 in s2s:
            for sl in (("", "/") if full else ("",)):
                out.append("/" + s1 + "/" + s2 + sl)
    out += ["/", "/a/b/{z}", "/a/{y}/b", "/{x}/{y}/a", "/a/b/a"]
    return out


QSEG = ["a", "b", "1", "a%20b", "%2F", "%C3%A9", "a1", "", "a+b", "aab"]


def query_paths():
    out = ["/"]
    for s in QSEG:
        for sl in ("", "/"):
            out.append("/" + s + sl)
    for s1 in QSEG:
        for s2 in QSEG:
            for sl in ("", "/"):
                out.append("/" + s1 + "/" + s2 + sl)
    for combo in itertools.product(["a", "b", "1"], repeat=3):
        for sl in ("", "/"):
            out.append("/" + "/".join(combo) + sl)
    seen = set()
    return [p for p in out if not (p in seen or seen.add(p))]


QMETHODS = ["GET", "POST", "PUT"]
_REQ_CACHE: dict = {}


def request_for(method, raw_path, host="example.com"):
    """A web.Request whose URL is the one the real request parser builds for this request line
    (make_mocked_request alone would read '//a/' as an authority)."""
    k = (method, raw_path, host)
    r = _REQ_CACHE.get(k)
    if r is None:
        from aiohttp.base_protocol import BaseProtocol
        from aiohttp.http_parser import HttpRequestParser

        class _L:
            def get_debug(self):
                return False

        p = HttpRequestParser(BaseProtocol(_L()), _L(), 2 ** 16)
        msgs, _u, _t = p.feed_data(f"{method} {raw_path} HTTP/1.1\r\nHost: {host}\r\n\r\n".encode("latin1"))
        url = msgs[0][0].url
        req = make_mocked_request(method, "/", headers={"Host": host}).clone(rel_url=url)
        r = _REQ_CACHE[k] = (req, ref.path_safe(raw_path))
    return r


def needs_quoting(text: str) -> bool:
    return any(ord(c) > 126 or c in ' "<>^`|\\' for c in re.sub(r"\{[^{}]*(?:\{[^{}]*\}[^{}]*)*\}", "", text))


# ---------------------------------------------------------------- building real tables
def _handler(rid):
    async def h(request):  # pragma: no cover - never called
        return web.Response()

    h.rid = rid
    return h


class BuildError(Exception):
    pass


def build(table, app=None):
    """table (see refs/dispatch.resolve) -> real Application; raises BuildError when the API refuses it."""
    app = app or web.Application()
    for e in table:
        try:
            if e[0] == "res":
                for m in sorted(e[3]):
                    app.router.add_route(m, e[2], _handler(e[1]))
            elif e[0] == "sub":
                app.add_subapp(e[1], build(e[2]))
            elif e[0] == "dom":
                app.add_domain(e[1], build(e[2]))
        except BuildError:
            raise
        except (RuntimeError, ValueError, AssertionError) as ex:
            raise BuildError(f"{e}: {ex!r}")
    return app


def impl_resolve(app, req):
    coro = app.router.resolve(req)
    try:
        coro.send(None)
    except StopIteration as si:
        mi = si.value
    else:  # pragma: no cover
        coro.close()
        raise RuntimeError("resolve() suspended")
    exc = mi.http_exception
    if exc is None:
        return ("ok", getattr(mi.handler, "rid", None), dict(mi))
    if exc.status == 405:
        return (405, frozenset(exc.allowed_methods))
    return (exc.status,)


def table_feature(table):
    """'quoted' when some fixed text of the table needs percent-quoting (the class of the known finding)."""
    def texts(t):
        for e in t:
            if e[0] == "res":
                yield e[2]
            else:
                if e[0] == "sub":
                    yield e[1]
                yield from texts(e[2])
    return "quoted" if any(needs_quoting(x) for x in texts(table)) else "ascii"


def check_table(part: Part, table, paths, hosts=("example.com",)):
    try:
        app = build(table)
        app.freeze()
    except BuildError:
        part.count("tables_refused_by_api")
        return
    except Exception as ex:  # noqa: BLE001
        # not a refusal (ValueError/RuntimeError/AssertionError with a reason): the registration API fell over
        part.violation(f"C14:table-cannot-be-built:{type(ex).__name__}",
                       f"table {table!r}: building it raises {ex!r}", {"kind": "table", "table": table, "paths": [], "hosts": list(hosts)})
        return
    part.count("tables")
    part.state(repr(table))
    feat = None
    done = []          # requests already resolved on this router: one long-lived router serves them all
    for host in hosts:
        for raw in paths:
            for method in QMETHODS:
                req, psafe = request_for(method, raw, host)
                got = impl_resolve(app, req)
                want = ref.resolve(table, host, psafe, method)
                part.count("executions")
                part.count("transitions")
                if got != want:
                    feat = feat or table_feature(table)
                    kind = f"want-{want[0]}-got-{got[0]}" if want[0] != got[0] else f"{want[0]}-differs"
                    case = {"kind": "resolve", "table": table, "method": method, "path": raw, "host": host}
                    # the same request on a fresh router: does the answer depend on what the router resolved before?
                    fresh = build(table)
                    fresh.freeze()
                    if impl_resolve(fresh, request_for(method, raw, host)[0]) == want:
                        kind = "history-dependent:" + kind
                        case["history"] = [list(x) for x in done]
                    part.violation(f"C14:resolve:{kind}:{feat}",
                                   f"table {table} request {method} {raw} Host={host}: dispatcher {got}, documented rule {want}"
                                   + (f" (a fresh router answers correctly; {len(done)} earlier lookups on this one)" if "history" in case else ""), case)
                else:
                    part.outcome((want[0], len(want) > 1 and str(want[1])[:40]))
                done.append((method, raw, host))


# ---------------------------------------------------------------- table enumeration
def entries(tpls, methods):
    return [("res", f"{t}|{m}", t, frozenset(METHODS[m])) for t in tpls for m in methods]


def _job_tables(job):
    kind, tables, paths, hosts = job
    part = Part()
    for t in tables:
        check_table(part, t, paths, hosts)
    if tables:
        part.sample({"section": kind, "table": tables[0], "queries": len(paths) * len(QMETHODS) * len(hosts)})
    return part


def chunks(it, n):
    buf = []
    for x in it:
        buf.append(x)
        if len(buf) >= n:
            yield buf
            buf = []
    if buf:
        yield buf


def sections(quick):
    """yield (name, iterator of tables, hosts)"""
    full_t = templates(True)
    quick_t = templates(False)
    small = ["/a", "/a/", "/{x}", "/a{x}", "/a/{y}", "/{x}/a", "/{t:.*}", "/a/{u:.*}", "/a/b", "/{x:\\d+}", "/a b/{y}", "/{x}/{y}"]
    E1 = entries(full_t, ["G", "P", "*", "GP"])
    yield "single", ([e] for e in E1), ("example.com",)
    Ep = entries(full_t if not quick else quick_t, ["G", "P", "*"] if not quick else ["G", "*"])
    yield "pairs", ([a, b] for a in Ep for b in Ep if a[1] != b[1]), ("example.com",)
    Et = entries(small if quick else small + ["/b", "/a/b/{z}", "/{x}/{y}/a", "/é/{y}"], ["G", "P"])
    yield "triples", ([a, b, c] for a in Et for b in Et for c in Et if len({a[1], b[1], c[1]}) == 3), ("example.com",)
    # sub-applications mounted on a prefix (nested once), before/after a parent resource
    subroutes = ["", "/", "/b", "/{y}", "/{u:.*}", "/b/{y}"]
    parents = [None] + entries(["/a/{y}", "/a/b", "/{t:.*}", "/a", "/a/b/{z}"], ["G", "P"])
    prefixes = ["/a", "/a/b", "/a b", "/é", "/a+b"] if not quick else ["/a", "/a/b", "/a b", "/a+b"]

    def subtables():
        Es = entries(subroutes, ["G", "P"])
        for pre in prefixes:
            for k in (1, 2):
                for rs in itertools.permutations(Es, k):
                    if len({r[1] for r in rs}) < k:
                        continue
                    sub = ("sub", pre, list(rs))
                    for par in parents:
                        if par is None:
                            yield [sub]
                        else:
                            yield [par, sub]
                            yield [sub, par]
        # nested once: /a -> /b -> routes
        for r in entries(["", "/", "/{y}"], ["G"]):
            inner = ("sub", "/b", [r])
            for extra in [None] + entries(["/b/{y}", "/{u:.*}"], ["G"]):
                yield [("sub", "/a", [inner] + ([extra] if extra else []))]
                if extra:
                    yield [("sub", "/a", [extra, inner])]
    yield "subapps", subtables(), ("example.com",)

    def domtables():
        for dom in ("example.com", "*.example.com", "example.com:8080"):
            for r in entries(["/a", "/{x}", "/"], ["G", "P"]):
                for par in entries(["/a", "/{x}", "/a/{y}"], ["G", "P"]):
                    yield [par, ("dom", dom, [r])]
                    yield [("dom", dom, [r]), par]
        # a domain application inside an application mounted on a prefix
        for dom in ("example.com", "*.example.com"):
            for r in entries(["/b", "/{x}", "/"], ["G", "P"]):
                for par in [None] + entries(["/b", "/{x}"], ["G"]):
                    yield [("sub", "/a", [("dom", dom, [r])] + ([par] if par else []))]
                    if par:
                        yield [("sub", "/a", [par, ("dom", dom, [r])])]
    yield "domains", domtables(), ("example.com", "other.com", "EXAMPLE.COM", "example.com:8080", "sub.example.com", "SUB.Example.com", "example.com:80")


# ---------------------------------------------------------------- url_for inverse
VALUES = ["a", "1", "a b", "é", "a%b", "a?b", "a#b", "%41", "a+b", "a;b=c", "a:b", "a@b", "..", "a\\b", "%2F", "a%2Fb"]


def _job_urlfor(job):
    mounts, tpls = job
    part = Part()
    for mount in mounts:
        for t in tpls:
            parts = ref.parts_of(t)
            names = [p[1] for p in parts if p[0] == "var"]
            rxs = {p[1]: p[2] for p in parts if p[0] == "var"}
            table = [("res", "r", t, frozenset(["GET"]))]
            if mount:
                table = [("sub", mount, table)]
            try:
                app = build(table)
                app.freeze()
            except BuildError:
                continue
            res = [r for r in (app.router.resources() if not mount else app._subapps[0].router.resources())][0]
            for vals in itertools.product(VALUES, repeat=len(names)):
                kw = dict(zip(names, vals))
                if any(rxs[n] is not None and not re.fullmatch(rxs[n], v) for n, v in kw.items()):
                    continue
                part.count("executions")
                part.count("transitions")
                try:
                    url = res.url_for(**kw)
                    # what a client parsing str(url) puts on the request line
                    raw = URL(str(url)).raw_path
                    req, _ps = request_for("GET", raw)
                    got = impl_resolve(app, req)
                except Exception as ex:  # noqa: BLE001
                    part.violation(f"C14:url_for:exception:{type(ex).__name__}", f"url_for({kw}) on {mount}{t}: {ex!r}",
                                   {"kind": "urlfor", "mount": mount, "template": t, "kw": kw})
                    continue
                want = ("ok", "r", kw)
                if got != want:
                    feat = "quoted" if needs_quoting(mount + t) else "ascii"
                    part.violation(f"C14:url_for:not-inverse:{feat}",
                                   f"url_for({kw}) on template {mount}{t} gives {raw}, which resolves to {got} instead of {want}",
                                   {"kind": "urlfor", "mount": mount, "template": t, "kw": kw})
                else:
                    part.outcome(("urlfor", t, tuple(vals)))
    return part


# ---------------------------------------------------------------- normalising redirects
RTOK = ["/", "//", "a", "\\", "%2F", "%5C", "@", "evil.com", "..", "%09", "?", ":"]


def _job_redirect(job):
    from mc.server import AppConn
    from mc.vloop import VLoop

    opts, routes, targets = job
    part = Part()
    for target in targets:
        loop = VLoop().hold()
        try:
            app = web.Application(middlewares=[web.normalize_path_middleware(**opts)])

            async def h(request):
                return web.Response(text="ok")

            for r in routes:
                app.router.add_route("GET", r, h)
            conn = AppConn(loop, app)
            conn.settle()
            conn.send(b"GET " + target.encode("latin1") + b" HTTP/1.1\r\nHost: example.com\r\n\r\n")
            conn.deliver_to_server()
            conn.settle(1.0)
            raw = bytes(conn.client.received)
        finally:
            loop.finish()
        part.count("executions")
        part.count("transitions")
        m = re.match(rb"HTTP/1\.1 (\d+)", raw)
        status = int(m.group(1)) if m else 0
        loc = re.search(rb"\r\nLocation: ([^\r\n]*)", raw)
        part.outcome((status, bool(loc)))
        if 300 <= status < 400 and loc:
            v = loc.group(1).decode("latin1")
            if not re.match(r"^/(?![/\\])", v):
                part.violation("C14:redirect:off-site", f"GET {target!r} with {opts} routes {routes}: redirected to {v!r}",
                               {"kind": "redirect", "opts": opts, "routes": routes, "target": target})
    return part


def redirect_targets(depth):
    out = []
    for d in range(1, depth + 1):
        for combo in itertools.product(RTOK, repeat=d):
            t = "".join(combo)
            if t.startswith("/") and "?" not in t[:1]:
                out.append(t)
    seen = set()
    return [t for t in out if not (t in seen or seen.add(t))]


# ---------------------------------------------------------------- driver
def run(ctx):
    ctx.rule = (
        "tables = every ordered tuple of resources (template x methods) from the stated pools, sub-application and domain placements; "
        "per table every request of 199 raw paths (<=2 segments over 8 segment forms incl. percent-encodings and empties, 3 segments over a,b,1, "
        "with/without trailing slash) x {GET,POST,PUT} (x 5 Host values for domain tables) is resolved by the real dispatcher and by the "
        "linear reference; states = distinct tables, outcomes = distinct reference verdict classes; plus url_for/resolve round trips and "
        "normalize_path_middleware redirect targets"
    )
    ctx.assumptions += [
        "requests are aiohttp.test_utils.make_mocked_request objects (real yarl URL / path_safe); resolve() is driven without a loop (it never suspends)",
        "a mounted sub-application claims its whole subtree, a matching domain sub-application is final (as the code documents)",
    ]
    paths = query_paths()
    caps = {"pairs": 40000 if ctx.quick else None, "triples": 20000 if ctx.quick else 300000}
    for name, tables, hosts in sections(ctx.quick):
        cap = caps.get(name)
        n = 0
        jobs = []
        for ch in chunks(tables, 60):
            if cap is not None and n >= cap:
                ctx.cap(f"section {name}: table cap {cap} reached")
                break
            n += len(ch)
            jobs.append((name, ch, paths, hosts))
        for part in ctx.pmap(_job_tables, jobs):
            ctx.merge(part, name)
    # url_for inverse
    tpls = [t for t in templates(True) if "{" in t] + ["/a b", "/é", "/a"]
    jobs = [((m,), tpls[i:i + 12]) for m in ("", "/m", "/m n", "/m+n", "/m(n)") for i in range(0, len(tpls), 12)]
    for part in ctx.pmap(_job_urlfor, jobs):
        ctx.merge(part, "url_for")
    # redirects
    targets = redirect_targets(3 if ctx.quick else 4)
    confs = [({"append_slash": True, "merge_slashes": True}, ["/a/", "/{t:.*}/"]),
             ({"append_slash": False, "remove_slash": True, "merge_slashes": True}, ["/a", "/{t:.*}"]),
             ({"append_slash": True, "merge_slashes": False}, ["/{t:.*}/"]),
             ({"append_slash": False, "merge_slashes": True}, ["/{t:.*}"])]
    jobs = [(o, r, targets[i:i + 100]) for (o, r) in confs for i in range(0, len(targets), 100)]
    for part in ctx.pmap(_job_redirect, jobs):
        ctx.merge(part, "redirect")
    ctx.notes["query_paths"] = len(paths)
    ctx.notes["redirect_targets"] = len(targets)


def replay(case):
    part = Part()
    if case["kind"] == "resolve" and case.get("history") is not None:
        table = _tuplify(case["table"])
        app = build(table)
        app.freeze()
        for (m, raw, host) in case["history"]:
            impl_resolve(app, request_for(m, raw, host)[0])
        req, psafe = request_for(case["method"], case["path"], case["host"])
        got = impl_resolve(app, req)
        want = ref.resolve(table, case["host"], psafe, case["method"])
        if got != want:
            kind = f"want-{want[0]}-got-{got[0]}" if want[0] != got[0] else f"{want[0]}-differs"
            part.violation(f"C14:resolve:history-dependent:{kind}:{table_feature(table)}",
                           f"dispatcher {got}, documented rule {want} after {len(case['history'])} earlier lookups", case)
    elif case["kind"] == "resolve":
        table = _tuplify(case["table"])
        check_table(part, table, [case["path"]], (case["host"],))
    elif case["kind"] == "table":
        check_table(part, _tuplify(case["table"]), case["paths"], tuple(case["hosts"]))
    elif case["kind"] == "urlfor":
        part = _job_urlfor(((case["mount"],), [case["template"]]))
    else:
        part = _job_redirect((case["opts"], case["routes"], [case["target"]]))
    return part.violations


def _tuplify(t):
    out = []
    for e in t:
        if e[0] == "res":
            out.append(("res", e[1], e[2], frozenset(e[3])))
        else:
            out.append((e[0], e[1], _tuplify(e[2])))
    return out
