"""C11 WebSocket codec round trip.

Two sections (DESIGN §3 C11):

seq   STREAM: every message sequence up to the depth bound over a type x size
      alphabet (sizes at the 125/126, 65535/65536 and 16 KiB thresholds) is sent
      through a real `WebSocketWriter` for each (mask, compress wbits, notakeover,
      per-message compress) configuration; the bytes written to the transport
      are fed to a real `WebSocketReader` built with the negotiated parameters,
      whole and under cuts; the received sequence must equal the sent one.
conc  SCHED: 2-3 sender tasks share one writer; executor completions (large
      compressed frames) and cancellations of senders are environment events;
      every schedule with <= d deviations is run and the reader must deliver,
      without error, per task a program-order subsequence that contains every
      message whose send returned, every payload intact.
"""
from __future__ import annotations

import asyncio
import itertools
import random

from aiohttp._websocket.reader_py import WebSocketDataQueue, WebSocketReader
from aiohttp._websocket.writer import WebSocketWriter
from aiohttp.base_protocol import BaseProtocol
from aiohttp.http_websocket import WSMsgType

from mc import explorer
from mc.core import Part
from mc.vloop import VLoop

PROPERTY = "C11"
explorer.PROP = PROPERTY

SIZES = [0, 1, 125, 126, 127, 16383, 16384, 16385, 65535, 65536]


class _Tr:
    def __init__(self):
        self.out = []
        self.closing = False

    def write(self, data):
        self.out.append(bytes(data))

    def is_closing(self):
        return self.closing


class _RProto:
    _reading_paused = False

    def pause_reading(self):
        self._reading_paused = True

    def resume_reading(self):
        self._reading_paused = False


def payload(kind, size, tag):
    """Deterministic payload carrying its identity; text is valid UTF-8 of exactly `size` bytes."""
    head = f"<{tag}>".encode()
    if kind == "text":
        body = (head + b"abcdefghij" * (size // 10 + 1))[:size]
    else:
        body = (head + bytes(range(256)) * (size // 256 + 1))[:size]
    return body


def send(writer, kind, data, comp):
    if kind == "text":
        return writer.send_frame(data, WSMsgType.TEXT, comp)
    if kind == "binary":
        return writer.send_frame(data, WSMsgType.BINARY, comp)
    if kind == "ping":
        return writer.send_frame(data, WSMsgType.PING)
    if kind == "pong":
        return writer.send_frame(data, WSMsgType.PONG)
    if kind == "close":
        return writer.close(1000, data)
    raise KeyError(kind)


def expected(kind, data):
    if kind == "text":
        return ("text", data.decode())
    if kind == "binary":
        return ("binary", data)
    if kind in ("ping", "pong"):
        return (kind, data)
    return ("close", 1000, data.decode())


def read_all(stream, cuts, compress):
    q = WebSocketDataQueue(_RProto(), 2 ** 16, loop=None)
    r = WebSocketReader(q, 0, compress, True)
    prev = 0
    for c in list(cuts) + [len(stream)]:
        r.feed_data(stream[prev:c])
        prev = c
    msgs = []
    for m in q._buffer:
        t = m.type
        if t == WSMsgType.TEXT:
            msgs.append(("text", m.data))
        elif t == WSMsgType.BINARY:
            msgs.append(("binary", bytes(m.data)))
        elif t == WSMsgType.PING:
            msgs.append(("ping", bytes(m.data)))
        elif t == WSMsgType.PONG:
            msgs.append(("pong", bytes(m.data)))
        elif t == WSMsgType.CLOSE:
            msgs.append(("close", m.data, m.extra))
    err = None if r._exc is None else f"{type(r._exc).__name__}: {r._exc}"[:120]
    return msgs, err


def short(m):
    return (m[0],) + tuple((x[:24], len(x)) if isinstance(x, (bytes, str)) else x for x in m[1:])


# ---------------------------------------------------------------- scenario
class Scen:
    horizon = 10.0

    def __init__(self, case, loop):
        self.case = case
        self.loop = loop
        loop.exec_runs_cancelled = True
        loop.exec_eager = bool(case.get("eager"))
        self.problems = []
        cfg = case["cfg"]
        self.tr = _Tr()
        self.proto = BaseProtocol(loop)
        self.writer = WebSocketWriter(self.proto, self.tr, use_mask=cfg["mask"], compress=cfg["compress"],
                                      notakeover=cfg["notakeover"], random=random.Random(7))
        self.programs = case["programs"]           # per task: [(kind, size, per-message compress)]
        self.returned = [[] for _ in self.programs]    # message indices whose send returned
        self.cancelled = [False] * len(self.programs)
        self.errors = []
        self.refused = []
        self.jobno = {}
        self.keep = []     # keeps job tuples alive so that id() stays unique
        # late starters begin sending when the environment says so (e.g. after another sender was cancelled)
        self.gates = {i: loop.create_future() for i in case.get("late", ())}
        self.tasks = [loop.create_task(self.sender(i)) for i in range(len(self.programs))]

    async def sender(self, i):
        if i in self.gates:
            try:
                await self.gates[i]
            except asyncio.CancelledError:
                self.cancelled[i] = True
                raise
        for j, (kind, size, comp) in enumerate(self.programs[i]):
            data = payload(kind, size, f"{i}.{j}")
            try:
                await send(self.writer, kind, data, comp)
            except asyncio.CancelledError:
                self.cancelled[i] = True
                raise
            except Exception as e:  # noqa: BLE001
                if type(e).__name__ == "ClientConnectionResetError" and self.writer._closing:
                    # a send that meets the close frame is refused (no data frame may follow it): like a send that
                    # never returned; the task stops here
                    self.refused.append((i, j))
                    return
                self.errors.append((i, j, type(e).__name__, str(e)[:80]))
                return
            self.returned[i].append(j)

    def menu(self):
        # jobs are numbered in submission order for the whole execution, so labels are stable
        for j in self.loop.exec_jobs:
            if id(j) not in self.jobno:
                self.jobno[id(j)] = len(self.jobno)
                self.keep.append(j)
        m = [(f"exec.{self.jobno[id(j)]}", lambda j=j: self.loop.complete_exec_job(j)) for j in self.loop.exec_jobs][:3]
        m += [(f"start.t{i}", lambda g=g: g.done() or g.set_result(None)) for i, g in sorted(self.gates.items()) if not g.done()]
        return m

    def faults(self):
        if "cancel" not in self.case.get("faults", ()):
            return []
        return [(f"cancel.t{i}", t.cancel) for i, t in enumerate(self.tasks) if not t.done()]

    def monitor(self):
        pass

    def P(self, sig, msg):
        self.problems.append((f"C11:{sig}", msg))

    def state(self):
        return None

    def final(self):
        stream = b"".join(self.tr.out)
        compress = bool(self.case["cfg"]["compress"] or any(c for p in self.programs for (_k, _s, c) in p))
        cfg = self.case["cfg"]
        for e in self.errors:
            self.P(f"send-raised:{e[2]}", f"send_frame of message {e[0]}.{e[1]} raised {e[2]}: {e[3]}")
        base, err = read_all(stream, (), compress)
        self.judge(base, err, "un-cut")
        for cuts in self.cuts_for(stream):
            got, e2 = read_all(stream, cuts, compress)
            if got != base or e2 != err:
                self.P("segmentation-dependent", f"cuts {list(cuts)[:4]}: {[short(m) for m in got][:3]} {e2} vs un-cut {[short(m) for m in base][:3]} {err} ({cfg})")
                break
        for c in self.loop.collect_exceptions():
            self.P("loop-exception", f"{c.get('message')} {c.get('exception')!r}")
        return (tuple(m[0] for m in base), err is not None, tuple(tuple(r) for r in self.returned), tuple(self.cancelled))

    def cuts_for(self, stream):
        n = len(stream)
        if self.case.get("cuts") == "none" or n < 2:
            return []
        if n <= 160:
            return [(i,) for i in range(1, n)] + [tuple(range(1, n))]
        # structural: around every frame start (header bytes, mask, first payload bytes) and mid-payload
        pts = set()
        pos = 0
        for w in self.tr.out:
            for d in (1, 2, 3, 4, 6, 10, 11, 14, 15):
                if d < len(w):
                    pts.add(pos + d)
            pts.add(pos + len(w) // 2)
            pos += len(w)
            if 0 < pos < n:
                pts.update({pos - 1, pos})
        pts = sorted(p for p in pts if 0 < p < n)
        return [(p,) for p in pts] + [tuple(pts)]

    def judge(self, got, err, how):
        cfg = self.case["cfg"]
        if err is not None:
            self.P("reader-error", f"reader failed on the writer's output ({how}): {err}; config {cfg} programs {self.programs}")
            return
        # identical payloads (sizes too small to carry their tag) are interchangeable: match in program order
        want_all = {}
        for i, prog in enumerate(self.programs):
            for j, (kind, size, _c) in enumerate(prog):
                want_all.setdefault(expected(kind, payload(kind, size, f"{i}.{j}")), []).append((i, j))
        # every received message is one that was sent, intact, and not more often than it was sent
        seen = []
        for m in got:
            cands = want_all.get(m)
            if cands is None:
                self.P("garbled-message", f"received {short(m)} which no task sent ({how}); config {cfg} programs {self.programs}")
                return
            if not cands:
                self.P("duplicated-message", f"received {short(m)} more often than it was sent ({how}); config {cfg} programs {self.programs}")
                return
            seen.append(cands.pop(0))
        if len(set(seen)) != len(seen):
            self.P("duplicated-message", f"received order {seen} contains a message twice; config {cfg}")
        # per task: program order, and everything whose send returned is there
        for i in range(len(self.programs)):
            mine = [j for (t, j) in seen if t == i]
            if mine != sorted(mine):
                self.P("reordered", f"task {i}'s messages arrive as {mine}; config {cfg} programs {self.programs}")
            missing = [j for j in self.returned[i] if j not in mine]
            if missing:
                self.P("lost-message", f"send_frame returned for task {i} messages {self.returned[i]} but {missing} never arrive; config {cfg} programs {self.programs}")
            if not self.cancelled[i] and not self.errors and not any(t == i for t, _j in self.refused) and len(self.returned[i]) != len(self.programs[i]) and self.tasks[i].done():
                self.P("send-incomplete", f"task {i} ended after {self.returned[i]} of {len(self.programs[i])} sends")
        if len(self.programs) == 1 and not self.cancelled[0] and seen != [(0, j) for j in range(len(self.programs[0]))] and not self.errors:
            self.P("sequence-differs", f"sent {len(self.programs[0])} messages, received {seen}; config {cfg} programs {self.programs}")

    def close(self):
        for t in self.tasks:
            if not t.done():
                t.cancel()


def factory(case, loop):
    return Scen(case, loop)


# ---------------------------------------------------------------- enumeration
def configs(quick):
    out = []
    for mask in (False, True):
        for compress in ([0, 9, 15] if quick else [0] + list(range(9, 16))):
            for nt in ((False, True) if compress else (False,)):
                out.append({"mask": mask, "compress": compress, "notakeover": nt})
    return out


def alphabet(sizes, override):
    A = [("text", s, override) for s in sizes] + [("binary", s, override) for s in sizes]
    A += [("ping", 5, None), ("pong", 0, None), ("ping", 125, None)]
    return A


def _job_seq(job):
    cfg, seqs = job
    part = Part()
    for prog in seqs:
        case = {"cfg": cfg, "programs": [list(prog)], "faults": []}
        ex = explorer.run_one(factory, case, [], max_passes=500)
        part.count("executions")
        part.count("transitions", ex.passes + 1)
        part.outcome((cfg["mask"], cfg["compress"], cfg["notakeover"], ex.obs))
        part.state((cfg["mask"], cfg["compress"], cfg["notakeover"], tuple((k, s > 16384, s > 125, c) for k, s, c in prog)))
        for sig, msg in ex.problems:
            part.violation(sig, msg[:600], {"kind": "seq", "case": case, "prefix": []})
    if seqs:
        part.sample({"config": cfg, "messages": [list(m) for m in seqs[len(seqs) // 2]]})
    return part


def _job_conc(job):
    case, bound = job
    part = Part()

    def on_exec(ex):
        part.count("executions")
        part.count("transitions", ex.passes + 1)
        part.outcome((case["name"], ex.obs))
        part.state((case["name"], ex.obs))
        for sig, msg in ex.problems:
            part.violation(sig, msg[:600] + f" | schedule={explorer.schedule_of(ex)}", {"kind": "conc", "case": case, "prefix": explorer.prefix_of(ex)})

    st = explorer.explore(factory, case, bound, max_execs=50000, max_passes=500, on_exec=on_exec)
    if st["truncated"]:
        part.cap(f"execution cap hit for {case['name']} (complete up to bound {st['completed_bound']}, {st['executions']} executions reported)")
    part.sample({"case": case["name"], "bound": bound, "executions": st["executions"]})
    return part


def conc_cases(quick):
    out = []
    big, small = 20000, 50
    cfgs = [{"mask": m, "compress": 15, "notakeover": nt} for m in (False, True) for nt in (False, True)]
    if not quick:
        cfgs += [{"mask": False, "compress": 9, "notakeover": nt} for nt in (False, True)]
    for cfg in cfgs:
        tag = f"m{int(cfg['mask'])}w{cfg['compress']}n{int(cfg['notakeover'])}"
        progs = {
            "big-small": [[("binary", big, None), ("text", small, None)], [("text", small, None), ("text", small, None)]],
            "big-big": [[("text", big, None), ("text", small, None)], [("binary", big + 1, None)]],
            "three": [[("text", big, None)], [("text", small, None)], [("binary", big, None), ("ping", 3, None)]],
            "override": [[("text", big, 15), ("text", small, None)], [("text", small, 9), ("binary", big, None)]],
            "with-close": [[("binary", big, None), ("close", 3, None)], [("text", small, None), ("text", big, None)]],
            # a large shared-context send in flight, an override send waiting for the lock, another large shared-context
            # send queued behind it (same kind of content, so that it can refer back into the first one's window)
            "three-override": [[("text", big, None)], [("text", small, 15)], [("text", big + 1, None)]],
            "three-override-big": [[("text", big, None)], [("text", big + 2, 9)], [("text", big + 1, None), ("text", small, None)]],
        }
        for nm, p in progs.items():
            out.append({"name": f"{nm}/{tag}", "cfg": cfg, "programs": p, "faults": ["cancel"], "cuts": "none"})
        # a sender that starts later, possibly after the sender of a large message was cancelled mid-compression
        out.append({"name": f"late-small-eager/{tag}", "cfg": cfg, "programs": [[("binary", big, None), ("text", small, None)], [("text", small, None), ("text", small + 1, None)]],
                    "late": [1], "eager": True, "faults": ["cancel"], "cuts": "none"})
        out.append({"name": f"big-small-eager/{tag}", "cfg": cfg, "programs": [[("binary", big, None), ("text", small, None)], [("text", small, None), ("binary", big + 1, None)]],
                    "eager": True, "faults": ["cancel"], "cuts": "none"})
        out.append({"name": f"late-small/{tag}", "cfg": cfg, "programs": [[("binary", big, None), ("text", small, None)], [("text", small, None), ("text", small + 1, None)]],
                    "late": [1], "faults": ["cancel"], "cuts": "none"})
        out.append({"name": f"late-big/{tag}", "cfg": cfg, "programs": [[("text", big, None)], [("binary", big + 2, None), ("text", small, None)]],
                    "late": [1], "faults": ["cancel"], "cuts": "none"})
    # no compression negotiated, only per-message overrides
    out.append({"name": "override-only", "cfg": {"mask": True, "compress": 0, "notakeover": False},
                "programs": [[("text", big, 15), ("text", small, None)], [("binary", small, 15), ("binary", big, 9)]], "faults": ["cancel"], "cuts": "none"})
    return out


def run(ctx):
    ctx.rule = (
        "seq: all message sequences <= depth over (TEXT,BINARY) x sizes {0,1,125,126,127,16383,16384,16385,65535,65536} + PING/PONG, per "
        "(mask, wbits, notakeover, per-message compress) config, writer output fed to the reader whole and under all single cuts (<=160 bytes) or "
        "structural cuts; conc: all schedules with <= d deviations (executor completion order, cancel of any sender at any pass) of 2-3 sender tasks; "
        "outcome distinct by (config, received types, returned sends, cancelled)"
    )
    ctx.assumptions += [
        "real WebSocketWriter (fixed-seed Random for masks) and WebSocketReader; transport and reader-side protocol are recording stubs",
        "run_in_executor jobs run atomically when the environment delivers their completion (default) or, in the *-eager scenarios, at submission with only the completion delivered later; a job whose awaiting task was cancelled still runs (result dropped)",
        "a cancelled sender's in-flight message may or may not be transmitted; later messages of that task are not sent",
    ]
    jobs = []
    small_sizes = [0, 1, 125, 126, 127]
    for cfg in configs(ctx.quick):
        overrides = [None] if cfg["compress"] else [None, 15, 9]
        for ov in overrides:
            A = alphabet(SIZES, ov)
            singles = [(a,) for a in A]
            pairs = [(a, b) for a in A for b in A if a[1] <= 16385 or b[1] <= 127]
            small = alphabet(small_sizes, ov) + [("text", 16385, ov)]
            triples = list(itertools.product(small, repeat=3)) if (cfg["compress"] or ov) else list(itertools.product(alphabet([0, 1, 126], ov), repeat=3))
            if ctx.quick:
                triples = [t for t in triples if sum(1 for m in t if m[1] > 1000) <= 1][::2]
            allseq = singles + pairs + triples
            if cfg["compress"]:
                # per-message override mixed with the negotiated (shared-context) compression: the override
                # message sits between two messages of the shared context
                mixed = [(k, s_, o) for k in ("text",) for s_ in ((1, 126, 16385) if ctx.quick else (1, 126, 16383, 16385))
                         for o in (None, 15, 9) if not (o and o > cfg["compress"])]
                allseq += [t for t in itertools.product(mixed, repeat=3) if any(m[2] for m in t) and not all(m[2] for m in t)]
            for i in range(0, len(allseq), 120):
                jobs.append(("seq", cfg, allseq[i:i + 120]))
    bound = 2 if ctx.quick else 3
    for case in conc_cases(ctx.quick):
        jobs.append(("conc", case, bound))
    for part in ctx.pmap(_dispatch, jobs):
        ctx.merge(part)
    ctx.notes["deviation_bound_conc"] = bound
    ctx.notes["configs"] = len(configs(ctx.quick))


def _dispatch(job):
    if job[0] == "seq":
        return _job_seq(job[1:])
    return _job_conc(job[1:])


def replay(case):
    prefix = [(tuple(l), c) for l, c in case.get("prefix", [])]
    c = case["case"]
    c = dict(c, programs=[[tuple(m) for m in p] for p in c["programs"]])
    ex = explorer.run_one(factory, c, prefix, max_passes=500)
    return [{"sig": s, "msg": m, "case": case} for s, m in ex.problems]
