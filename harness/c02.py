"""C02 Wire round trip: what one aiohttp endpoint sends, the other receives.

SCHED engine (DESIGN §3 C02): a real `ClientSession` (real connector pool, `ClientRequest`, writer,
response parser) is connected through the in-memory wire to a real `web.Application` behind a real
`RequestHandler`.  Scenarios are the sum of a request-shape grammar (method, URL, repeated / non-ASCII
headers, cookies, body kind and size around the writer's 2048 / 65536 thresholds, chunking,
compression, Expect: 100-continue, HTTP/1.0, Connection: close) against a canonical handler, and a
response-shape grammar (status incl. 204/304, HEAD, Response / StreamResponse with 0-3 writes /
payload / file / json, chunking, compression, explicit length, force_close, HTTP/1.0 client) against a
canonical request.  Environment events deliver the bytes of each direction whole, byte-wise or up to
structural offsets; every schedule with <= d deviations is run.  Oracle: what the handler saw equals
what was issued, what the caller got equals what was returned, both ends agree on keep-alive, and a
second request on the session is answered.
"""
from __future__ import annotations

import asyncio
import io
import json
import os
import tempfile

import aiohttp
from aiohttp import ClientTimeout, FormData, web
from aiohttp.connector import BaseConnector
from multidict import CIMultiDict

from mc import explorer
from mc.core import Part
from mc.wire import pair

PROPERTY = "C02"
explorer.PROP = PROPERTY

_TMP = {}


def tmpfile(n):
    if n not in _TMP:
        # workers put their files into the scratch directory the parent made (and removes) for this run
        fd, p = tempfile.mkstemp(prefix="c02-", suffix=".bin", dir=os.environ.get("VERIF_C02_SCRATCH") or None)
        os.write(fd, data_of(n))
        os.close(fd)
        _TMP[n] = p
    return _TMP[n]


def data_of(n, salt=0):
    return bytes((i * 7 + salt) % 251 for i in range(n))


class PairConnector(BaseConnector):
    allowed_protocol_schema_set = frozenset({"", "http", "https", "ws", "wss"})

    def __init__(self, scen, **kw):
        super().__init__(**kw)
        self.scen = scen

    async def _create_connection(self, req, traces, timeout):
        proto = self._factory()
        sproto = self.scen.runner.server()
        ct, st = pair(self._loop, proto, sproto)
        self.scen.links.append((ct, st))
        proto.connection_made(ct)
        sproto.connection_made(st)
        return proto


# ---------------------------------------------------------------- shapes
def request_kwargs(shape):
    """-> (method, url, kwargs, expected dict)"""
    method = shape.get("method", "GET")
    path = shape.get("path", "/p")
    kw = {}
    exp = {"method": method}
    hdrs = CIMultiDict({"X-A": "1"})
    if shape.get("headers") == "repeated":
        hdrs.add("X-R", "one")
        hdrs.add("X-R", "two")
    if shape.get("headers") == "nonascii":
        hdrs["X-N"] = "café €"
    if shape.get("headers") == "case-variants":
        # the same field name in two spellings: two field lines, like a repeated name
        hdrs = [("X-A", "1"), ("X-R", "one"), ("x-r", "two")]
        kw["headers"] = hdrs
        exp["headers"] = [(k, v) for k, v in hdrs]
    if shape.get("headers") == "empty-value":
        hdrs["X-E"] = ""
    if shape.get("close"):
        hdrs["Connection"] = "close"
    if shape.get("headers") != "case-variants":
        kw["headers"] = hdrs
        exp["headers"] = [(k, v) for k, v in hdrs.items() if k.startswith("X-")]
    if shape.get("cookies"):
        kw["cookies"] = {"ck": "v1", "other": "a b"}
        exp["cookies"] = {"ck": "v1", "other": "a b"}
    body = shape.get("body")
    n = shape.get("size", 5)
    logical = b""
    if body == "bytes":
        logical = data_of(n)
        kw["data"] = logical
    elif body == "str":
        s = ("héllo " * (n // 6 + 1))[:n]
        logical = s.encode()
        kw["data"] = s
    elif body == "bytesio":
        logical = data_of(n)
        kw["data"] = io.BytesIO(logical)
    elif body == "aiter":
        logical = data_of(n)

        async def gen(d=logical):
            step = max(1, len(d) // 3)
            for i in range(0, len(d), step):
                yield d[i:i + step]
        kw["data"] = gen()
    elif body == "form":
        kw["data"] = {"k": "vé", "k2": "a b&c"}
        exp["form"] = {"k": "vé", "k2": "a b&c"}
        logical = None
    elif body == "multipart":
        fd = FormData()
        fd.add_field("f", data_of(n), filename="f.bin")
        fd.add_field("t", "téxt")
        kw["data"] = fd
        exp["multipart"] = {"f": data_of(n), "t": "téxt".encode()}
        logical = None
    elif body == "json":
        obj = {"a": [1, 2, "é"], "n": n}
        kw["json"] = obj
        logical = json.dumps(obj).encode()
    exp["body"] = logical
    if shape.get("chunked"):
        kw["chunked"] = True
    if shape.get("chunked") is False:
        kw["chunked"] = False        # said explicitly
    if shape.get("compress"):
        kw["compress"] = shape["compress"]
    if shape.get("expect100"):
        kw["expect100"] = True
    return method, "http://svc.test" + path, kw, exp


RESP_BODY = b"response-body"


def build_response(shape, request):
    """Runs inside the handler; returns (response, expected dict) - streaming shapes write themselves."""
    status = shape.get("status", 200)
    kind = shape.get("kind", "bytes")
    n = shape.get("size", 13)
    headers = CIMultiDict({"X-Resp": "yes"})
    if shape.get("headers") == "repeated":
        headers.add("X-RR", "1")
        headers.add("X-RR", "2")
    body = data_of(n, 3)
    exp = {"status": status, "headers": [(k, v) for k, v in headers.items()], "body": body, "bodyless": False}
    if status in (204, 304) or request.method == "HEAD":
        exp["body"] = b""
        exp["bodyless"] = True
    kw = {"status": status, "headers": headers}
    if shape.get("reason"):
        kw["reason"] = shape["reason"]
        exp["reason"] = shape["reason"]
    return kind, kw, body, exp


class Scen:
    horizon = 30.0
    clock_when_ready = False

    def __init__(self, case, loop):
        self.case = case
        self.loop = loop
        self.problems = []
        self.links = []
        self.seen = []          # what the handler saw, per request
        self.second_seen = []   # (Host, X-A) of every arrival of the second request
        self.got = []           # what the caller got
        app = web.Application()
        app.router.add_route("*", "/{tail:.*}", self.handler)
        self.runner = web.AppRunner(app, keepalive_timeout=75)
        t = loop.create_task(self.runner.setup())
        loop.drain(200)
        t.result()
        self.connector = PairConnector(self, limit=5)
        skw = {}
        if case["req"].get("http10"):
            skw["version"] = aiohttp.HttpVersion10
        self.session = aiohttp.ClientSession(connector=self.connector, timeout=ClientTimeout(total=None), cookie_jar=aiohttp.DummyCookieJar(), **skw)
        self.exp_req = None
        self.exp_resp = []
        self.phase = "first"
        self.keep = None
        self.client_kept = False
        self.task = loop.create_task(self.client())

    # ---- server application
    async def handler(self, request):
        if request.path == "/second":
            self.second_seen.append((request.headers.get("Host"), request.headers.get("X-A")))
        rec = {"method": request.method, "raw_path": request.raw_path, "path": request.path, "query": list(request.query.items()),
               "headers": [(k, v) for k, v in request.headers.items() if k.upper().startswith("X-")], "cookies": dict(request.cookies),
               "version": tuple(request.version)}
        ctype = request.content_type
        try:
            if self.case["req"].get("noread") and len(self.seen) == 0:
                rec["body"] = None          # the handler answers without reading the request body
            elif ctype == "application/x-www-form-urlencoded":
                rec["form"] = dict(await request.post())
            elif ctype.startswith("multipart/"):
                rec["multipart"] = {}
                reader = await request.multipart()
                while True:
                    part = await reader.next()
                    if part is None:
                        break
                    rec["multipart"][part.name] = bytes(await part.read(decode=True))
            else:
                rec["body"] = await request.read()
        except Exception as e:  # noqa: BLE001
            rec["read_error"] = f"{type(e).__name__}: {e}"[:100]
        self.seen.append(rec)
        shape = self.case["resp"] if len(self.seen) == 1 else {}
        kind, kw, body, exp = build_response(shape, request)
        self.exp_resp.append(exp)
        if kind == "bytes":
            resp = web.Response(body=body, **kw)
        elif kind == "text":
            text = ("téxt " * (len(body) // 5 + 1))[:len(body)]
            exp["body"] = b"" if exp["bodyless"] else text.encode()
            resp = web.Response(text=text, **kw)
        elif kind == "empty":
            exp["body"] = b""
            resp = web.Response(**kw)
        elif kind == "json":
            obj = {"k": "é", "n": len(body)}
            exp["body"] = b"" if exp["bodyless"] else json.dumps(obj).encode()
            resp = web.json_response(obj, status=kw["status"], headers=kw["headers"])
        elif kind == "bytesio":
            resp = web.Response(body=io.BytesIO(body), **kw)
        elif kind == "file":
            p = tmpfile(len(body))
            exp["body"] = b"" if exp["bodyless"] else data_of(len(body))
            resp = web.FileResponse(p, status=kw["status"], headers=kw["headers"])
        elif kind.startswith("stream"):
            nwrites = int(kind[6:])
            resp = web.StreamResponse(**kw)
            if shape.get("chunked"):
                resp.enable_chunked_encoding()
            if shape.get("compress"):
                resp.enable_compression()
            if shape.get("length"):
                resp.content_length = len(body) if nwrites else 0
            if shape.get("force_close"):
                resp.force_close()
            await resp.prepare(request)
            step = max(1, (len(body) + max(nwrites, 1) - 1) // max(nwrites, 1))
            sent = b""
            for i in range(nwrites):
                piece = body[i * step:(i + 1) * step]
                sent += piece
                if piece:
                    await resp.write(piece)
            if not exp["bodyless"]:
                exp["body"] = sent
            await resp.write_eof()
            return resp
        else:
            raise KeyError(kind)
        if shape.get("chunked"):
            resp.enable_chunked_encoding()
        if shape.get("compress"):
            resp.enable_compression()
        if shape.get("force_close"):
            resp.force_close()
        return resp

    # ---- client application
    async def client(self):
        method, url, kw, exp = request_kwargs(self.case["req"])
        self.exp_req = exp
        opts = self.case["req"]
        if opts.get("read_bufsize"):
            kw["read_bufsize"] = opts["read_bufsize"]
        if opts.get("sock_read"):
            kw["timeout"] = ClientTimeout(total=None, sock_read=opts["sock_read"])
        await self.one(method, url, kw)
        # the client's own decision, taken when the exchange ended: did it keep the connection for reuse?
        self.client_kept = any(proto.is_connected() for conns in self.connector._conns.values() for (proto, _t) in conns)
        self.phase = "settle"
        self.gate = self.loop.create_future()
        await self.gate
        self.phase = "second"
        h2 = {"X-A": "2"}
        if self.case["req"].get("second_host"):
            h2["Host"] = self.case["req"]["second_host"]      # a Host header of the caller's own (virtual host behind one address)
        await self.one("GET", "http://svc.test/second", {"headers": h2})
        self.phase = "done"

    async def one(self, method, url, kw):
        t0 = self.loop.time()
        try:
            async with self.session.request(method, url, **kw) as resp:
                body = await resp.read()
                self.got.append({"status": resp.status, "reason": resp.reason, "headers": [(k, v) for k, v in resp.headers.items() if k.startswith("X-")],
                                 "body": body, "version": tuple(resp.version) if resp.version else None})
        except Exception as e:  # noqa: BLE001
            self.got.append({"error": f"{type(e).__name__}: {e}"[:120], "t": self.loop.time() - t0})

    # ---- environment
    def _structural(self, pending: bytes):
        """Offsets worth cutting at: end of the head, end of the first line after it, a threshold."""
        pts = []
        i = pending.find(b"\r\n\r\n")
        if i >= 0:
            pts.append(i + 4)
            j = pending.find(b"\r\n", i + 4)
            if j >= 0:
                pts.append(j + 2)
        else:
            j = pending.find(b"\r\n")
            if j >= 0:
                pts.append(j + 2)
        return [p for p in pts if 0 < p < len(pending)]

    def menu(self):
        m = []
        for k, (ct, st) in enumerate(self.links):
            for name, tr in ((f"c{k}>s", st), (f"s>c{k}", ct)):
                n = tr.deliverable()
                if n:
                    m.append((f"{name}.all", lambda tr=tr: tr.deliver()))
                    pts = self._structural(bytes(tr.peer.wire))
                    if pts:
                        m.append((f"{name}.struct", lambda tr=tr, p=pts[0]: tr.deliver(p)))
                    if n > 1:
                        m.append((f"{name}.1", lambda tr=tr: tr.deliver(1)))
                    if n > 2100:
                        m.append((f"{name}.2048", lambda tr=tr: tr.deliver(2048)))
                if tr.eof_deliverable():
                    m.append((f"{name}.eof", tr.deliver_eof))
        if self.phase == "settle" and not self.gate.done():
            m.append(("second-request", self._second))
        for j in range(len(self.loop.exec_jobs)):
            m.append((f"exec.{j}", lambda: self.loop.exec_jobs and self.loop.complete_exec_job(0)))
            break
        return m

    def _second(self):
        if self.gate.done():
            return          # chosen a pass ago together with another event that started the second request
        # keep-alive decisions of both ends at rest
        ct, st = self.links[0]
        # pooled = the client decided to keep the connection.  If the server closed it all the same, the client
        # only learns that from the FIN - a disagreement, unless the schedule let time pass (then a server-side
        # timer such as the lingering timeout may have expired with the client's bytes still in transit)
        pooled = self.client_kept and not (self.loop.time() > 0 and not any(
            proto.is_connected() for conns in self.connector._conns.values() for (proto, _t) in conns))
        self.keep = (pooled, not st.is_closing() and not st._lost_called, not ct.is_closing())
        self.gate.set_result(None)

    def faults(self):
        f = []
        if self.phase == "settle" and not self.gate.done() and self.case["req"].get("second_host") and self.links:
            # in one loop iteration: the server gives up the idle connection (restart, idle timeout) and the client,
            # which cannot know yet, starts its second request on it
            def drop_and_go():
                if self.gate.done():
                    return
                ct, st = self.links[0]
                if not st.is_closing():
                    st.close()
                self._second()
                self.keep = None            # nothing at rest to compare: the server went away on purpose
            f.append(("server-drops-idle+second-request", drop_and_go))
        return f

    def P(self, sig, msg):
        self.problems.append((f"C02:{sig}", msg + f" | case {self.case['name']}"))

    def monitor(self):
        pass

    def quiescent(self):
        pass

    # ---- oracle
    def final(self):
        name = self.case["name"]
        if not self.task.done():
            why = ""
            if self.case["req"].get("http10") and self.links and not self.links[0][1].is_closing() and self.seen:
                raw = b"".join(self.links[0][1].sent)
                head = raw.split(b"\r\n\r\n")[0].lower()
                if raw.startswith(b"HTTP/1.0") and b"content-length" not in head and b"transfer-encoding" not in head:
                    why = ":http10-close-delimited-response-left-open"
            self.P("exchange-stalls" + why, f"the client task never finished (phase {self.phase}); got {self.got} seen {len(self.seen)}")
            return ("stalled", self.phase)
        exp = self.exp_req
        # ---- request as seen by the handler
        if not self.seen:
            self.P("request-not-delivered", f"the handler was never called; caller got {self.got[:1]}")
        else:
            s = self.seen[0]
            if "read_error" in s:
                self.P("server-body-read-error", s["read_error"])
            if s["method"] != exp["method"]:
                self.P("method-differs", f"sent {exp['method']}, handler saw {s['method']}")
            want_url = aiohttp.client_reqrep.URL("http://svc.test" + self.case["req"].get("path", "/p")) if False else None
            from yarl import URL
            u = URL("http://svc.test" + self.case["req"].get("path", "/p"))
            if s["path"] != u.path or s["query"] != list(u.query.items()):
                self.P("target-differs", f"sent {u.path!r} {list(u.query.items())}, handler saw {s['path']!r} {s['query']}")
            if combine(exp["headers"]) != combine(s["headers"]):
                self.P("request-header-differs", f"sent {combine(exp['headers'])}, handler saw {combine(s['headers'])}")
            if exp.get("cookies") and s["cookies"] != exp["cookies"]:
                self.P("cookies-differ", f"sent {exp['cookies']}, handler saw {s['cookies']}")
            if exp.get("form") is not None and s.get("form") != exp["form"]:
                self.P("form-differs", f"sent {exp['form']}, handler saw {s.get('form')}")
            if exp.get("multipart") is not None and s.get("multipart") != exp["multipart"]:
                self.P("multipart-differs", f"handler saw parts {({k: len(v) for k, v in (s.get('multipart') or {}).items()})}")
            if exp["body"] is not None and s.get("body") != exp["body"] and "read_error" not in s and not self.case["req"].get("noread"):
                b = s.get("body") or b""
                self.P("request-body-differs", f"sent {len(exp['body'])} bytes, handler read {len(b)} bytes (first difference at {_fd(b, exp['body'])})")
            if self.case["req"].get("http10") and s["version"] != (1, 0):
                self.P("version-differs", f"handler saw HTTP/{s['version']}")
        # ---- response as seen by the caller
        if not self.got:
            self.P("no-result", "the caller got nothing")
        else:
            g = self.got[0]
            if "error" in g and g["error"].startswith("SocketTimeoutError") and g["t"] >= (self.case["req"].get("sock_read") or 1e9):
                pass        # the schedule let sock_read seconds pass with this exchange's bytes still in transit: a true timeout
            elif "error" in g:
                self.P(f"client-error:{g['error'].split(':')[0]}", g["error"])
            elif self.exp_resp:
                e = self.exp_resp[0]
                if g["status"] != e["status"]:
                    self.P("status-differs", f"returned {e['status']}, caller got {g['status']}")
                if e.get("reason") and g["reason"] != e["reason"]:
                    self.P("reason-differs", f"returned {e['reason']!r}, caller got {g['reason']!r}")
                if combine(e["headers"]) != combine(g["headers"]):
                    self.P("response-header-differs", f"returned {combine(e['headers'])}, caller got {combine(g['headers'])}")
                if g["body"] != e["body"]:
                    self.P("response-body-differs", f"returned {len(e['body'])} bytes, caller read {len(g['body'])} bytes (first difference at {_fd(g['body'], e['body'])})")
        # ---- keep-alive agreement and the second exchange
        if self.keep is not None:
            pooled, server_open, client_open = self.keep
            if pooled and not server_open:
                self.P("keepalive-disagreement:client-pools-closed-connection", "the client kept the connection for reuse but the server has closed it")
            if not pooled and server_open and client_open:
                self.P("keepalive-disagreement:server-waits-client-dropped", "the server keeps the connection open but the client neither pooled nor closed it")
        want_host = self.case["req"].get("second_host")
        for host, _xa in self.second_seen:
            if want_host and host != want_host:
                self.P("second-request-host-differs", f"the caller's Host header {want_host!r} reached the handler as {host!r} "
                       f"({len(self.second_seen)} arrival(s) of the second request on {len(self.links)} connection(s))")
        if len(self.got) >= 2:
            g2 = self.got[1]
            if "error" in g2:
                self.P(f"second-request-fails:{g2['error'].split(':')[0]}", g2["error"])
            elif g2["status"] != 200:
                self.P("second-request-status", f"{g2['status']}")
        for e in self.loop.collect_exceptions():
            msg = str(e.get("message"))
            if "Unclosed" in msg:
                continue
            self.P("loop-exception", f"{msg} {e.get('exception')!r}")
        return (tuple(x.get("status", x.get("error", "?")) for x in self.got), self.keep, len(self.links))

    def state(self):
        return None

    def close(self):
        if not self.task.done():
            self.task.cancel()
        self.connector._close_immediately()


def combine(pairs):
    """Field lines with the same name combine into one comma-separated value, in order (RFC 9110 5.3) -
    the form in which aiohttp's `headers` mapping presents repeated fields."""
    out = {}
    for k, v in pairs:
        out[k.lower()] = (out[k.lower()] + ", " + v) if k.lower() in out else v
    return out


def _fd(a, b):
    for i, (x, y) in enumerate(zip(a, b)):
        if x != y:
            return i
    return min(len(a), len(b))


def factory(case, loop):
    return Scen(case, loop)


SIZES = [0, 1, 2047, 2048, 2049, 65536, 65537]


def cases(quick):
    out = []

    def add(name, req, resp):
        out.append({"name": name, "req": req, "resp": resp})

    canon_resp = {"kind": "bytes"}
    canon_req = {"method": "GET"}
    # ---- request grammar
    for m in ("GET", "HEAD", "POST", "PUT", "DELETE", "OPTIONS", "PATCH"):
        add(f"req/method-{m}", {"method": m}, canon_resp)
    for p in ("/p/é/x y?q=1&q=2&e=%2F", "/?a=b", "/a%2Fb/c%25?x=%26", "/p;v=1/q,r?k=v+w"):
        add(f"req/path-{p}", {"path": p}, canon_resp)
    for h in ("repeated", "nonascii", "empty-value", "case-variants"):
        add(f"req/headers-{h}", {"headers": h}, canon_resp)
    add("req/cookies", {"cookies": True}, canon_resp)
    for body, n in (("bytes", 5), ("bytes", 3000), ("str", 5), ("bytesio", 2049)):
        add(f"req/{body}-{n}-chunked-false", {"method": "POST", "body": body, "size": n, "chunked": False}, canon_resp)
    add("req/close", {"close": True}, canon_resp)
    add("req/http10", {"http10": True}, canon_resp)
    add("req/http10-post", {"http10": True, "method": "POST", "body": "bytes", "size": 100}, canon_resp)
    for body in ("bytes", "str", "bytesio", "aiter", "json"):
        for n in (SIZES if body in ("bytes", "aiter") else [0, 5, 2049]):
            add(f"req/{body}-{n}", {"method": "POST", "body": body, "size": n}, canon_resp)
    for body in ("form", "multipart"):
        add(f"req/{body}", {"method": "POST", "body": body, "size": 3000}, canon_resp)
    for n in (0, 5, 2048, 65537):
        add(f"req/chunked-{n}", {"method": "POST", "body": "bytes", "size": n, "chunked": True}, canon_resp)
        for comp in ("deflate", "gzip"):
            add(f"req/{comp}-{n}", {"method": "PUT", "body": "bytes", "size": n, "compress": comp}, canon_resp)
    for n in (100, 3000, 65537, 300000):
        add(f"req/unread-body-{n}", {"method": "POST", "body": "bytes", "size": n, "noread": True}, canon_resp)
    add("req/unread-chunked-body", {"method": "POST", "body": "aiter", "size": 3000, "noread": True}, canon_resp)
    add("req/expect100", {"method": "POST", "body": "bytes", "size": 3000, "expect100": True}, canon_resp)
    add("req/expect100-chunked", {"method": "POST", "body": "aiter", "size": 3000, "expect100": True}, canon_resp)
    # ---- response grammar
    for st in (200, 201, 204, 304, 404, 500):
        for kind in ("bytes", "empty", "stream2"):
            add(f"resp/{st}-{kind}", canon_req, {"status": st, "kind": kind})
    for kind in ("bytes", "text", "json", "bytesio", "file", "stream0", "stream1", "stream3"):
        for n in ([0, 13, 2049] if quick else SIZES):
            add(f"resp/{kind}-{n}", canon_req, {"kind": kind, "size": n})
            add(f"resp/head-{kind}-{n}", {"method": "HEAD"}, {"kind": kind, "size": n})
    for kind in ("bytes", "stream2", "file"):
        for opt in ({"chunked": True}, {"compress": True}, {"chunked": True, "compress": True}, {"force_close": True}):
            if kind == "file" and opt.get("chunked"):
                continue        # FileResponse declares its own length; chunked encoding on it is refused by the API
            add(f"resp/{kind}-{'+'.join(opt)}", canon_req, dict({"kind": kind, "size": 3000}, **opt))
    for st in (200, 404):
        add(f"resp/{st}-empty+compress", canon_req, {"status": st, "kind": "empty", "compress": True})
        add(f"resp/{st}-empty+chunked", canon_req, {"status": st, "kind": "empty", "chunked": True})
    # no body allowed, compression or chunking asked for all the same
    for opt in ({"compress": True}, {"chunked": True}, {"chunked": True, "compress": True}):
        tag = "+".join(opt)
        add(f"resp/head-stream2-{tag}", {"method": "HEAD"}, dict({"kind": "stream2", "size": 3000}, **opt))
        add(f"resp/head-bytes-{tag}", {"method": "HEAD"}, dict({"kind": "bytes", "size": 3000}, **opt))
        add(f"resp/204-stream2-{tag}", canon_req, dict({"kind": "stream2", "size": 100, "status": 204}, **opt))
        add(f"resp/304-stream0-{tag}", canon_req, dict({"kind": "stream0", "size": 0, "status": 304}, **opt))
    add("resp/stream-length", canon_req, {"kind": "stream2", "size": 100, "length": True})
    add("resp/reason", canon_req, {"kind": "bytes", "reason": "Very Custom"})
    add("resp/headers-repeated", canon_req, {"kind": "bytes", "headers": "repeated"})
    for kind in ("bytes", "stream2", "stream0", "file"):
        add(f"resp/http10-{kind}", {"http10": True}, {"kind": kind, "size": 100})
    add("resp/close-req", {"close": True}, {"kind": "stream2", "size": 100})
    # client read options: a read buffer small enough that the body's last segment pauses the transport, with a
    # sock_read timeout; the pooled connection must still serve the second request after idling
    for kind in ("bytes", "stream3"):
        for n in (2049, 65537):
            add(f"resp/{kind}-{n}-sockread", {"read_bufsize": 1024, "sock_read": 5}, {"kind": kind, "size": n})
    for st, kind in ((204, "empty"), (304, "empty"), (200, "empty"), (200, "bytes")):
        add(f"resp/{st}-{kind}-sockread", {"sock_read": 5}, {"status": st, "kind": kind, "size": 0 if kind == "bytes" else 13})
    add("req/second-with-host", {"second_host": "virt.test"}, canon_resp)
    add("req/bytes-3000-sockread", {"method": "POST", "body": "bytes", "size": 3000, "sock_read": 5}, canon_resp)
    return out


def _job(job):
    case, bound = job
    part = Part()
    name = case["name"]

    def on_exec(ex):
        part.count("executions")
        part.count("transitions", ex.passes)
        part.outcome((name, ex.obs))
        part.state((name, ex.obs))
        for sig, msg in ex.problems:
            part.violation(sig, msg[:500] + f" | schedule={explorer.schedule_of(ex)}", {"case": case, "prefix": explorer.prefix_of(ex)})
        if ex.capped:
            part.cap(f"pass horizon hit in {name}")

    st = explorer.explore(factory, case, bound, max_execs=4000, max_passes=200000, on_exec=on_exec)
    if st["truncated"]:
        part.cap(f"execution cap hit for {name} at bound {bound} (complete up to bound {st['completed_bound']}, {st['executions']} executions reported)")
    part.sample({"case": name, "bound": bound, "executions": st["executions"]})
    return part


def run(ctx):
    ctx.rule = (
        "scenarios = request-shape grammar vs a canonical handler + response-shape grammar vs a canonical request (sum, not product); executions = all schedules "
        "with <= d deviations over delivery of each direction's bytes (whole / up to the head end or next line / 1 byte / 2048 bytes), FIN delivery, executor "
        "completion and the moment of the second request; outcome distinct by (scenario, statuses, keep-alive decisions, connections opened)"
    )
    ctx.assumptions += [
        "real ClientSession + BaseConnector pool <-> real web.Application / RequestHandler over the in-memory wire; file bodies come from scratch temp files "
        "(no kernel sendfile: aiohttp's fallback path)",
        "headers compared: every X-* field incl. order of repeated ones; bodies compared after the documented transparent (de)compression",
        "keep-alive agreement is judged at rest, before the second request is issued",
    ]
    bound = 1 if ctx.quick else 2
    cs = cases(ctx.quick)
    import shutil
    scratch = tempfile.mkdtemp(prefix="verif-c02-", dir="/dev/shm" if os.path.isdir("/dev/shm") else None)
    os.environ["VERIF_C02_SCRATCH"] = scratch       # inherited by the forked workers
    try:
        for part in ctx.pmap(_job, [(c, bound) for c in cs]):
            ctx.merge(part)
    finally:
        shutil.rmtree(scratch, ignore_errors=True)
        os.environ.pop("VERIF_C02_SCRATCH", None)
    ctx.notes["deviation_bound"] = bound
    ctx.notes["scenarios"] = len(cs)


def replay(case):
    prefix = [(tuple(l), c) for l, c in case["prefix"]]
    ex = explorer.run_one(factory, case["case"], prefix, max_passes=200000)
    return [{"sig": s, "msg": m, "case": case} for s, m in ex.problems]
