"""C18 Timeouts and cancellation are bounded and leave no residue.

SCHED engine used as a fault enumerator under virtual time (DESIGN §3 C18).  A real `ClientSession`
with a real `TCPConnector` (scripted resolver, `aiohappyeyeballs.start_connection` and
`create_connection` rebound to the in-memory wire) issues a *main* request whose peer stalls in one
of 11 phases (pool slot, DNS, TCP connect, request body write, before the status line, inside the
status line, inside a header, before the body, inside a chunk, before the chunked terminator, inside
a length-framed body), with one of the timeouts total / connect / sock_connect / sock_read set below
or above the 5 s ceiling threshold.  A *sibling* request shares the pool queue or the in-flight DNS
lookup.  Faults: cancellation of the main request at any loop pass.  After the storm a *follow-up*
request is issued.  Oracle: timeout raised within the bound (+1 s when ceiled), transport closed, pool
counters back to zero, no task of the request left, sibling and follow-up succeed.
"""
from __future__ import annotations

import asyncio
import socket

import aiohttp
import aiohttp.connector as connector_mod
from aiohttp import ClientTimeout
from aiohttp.abc import AbstractResolver

from mc import explorer
from mc.client import ScriptPeer
from mc.core import Part
from mc.wire import pair
from refs import http1

PROPERTY = "C18"
explorer.PROP = PROPERTY

PHASES = ["pool", "dns", "connect", "body-write", "before-status", "mid-status", "mid-header", "before-body", "mid-chunk",
          "before-terminator", "mid-length-body", "mid-body-after-pause", "after-interim"]
COVERS = {
    "total": set(PHASES),
    "connect": {"pool", "dns", "connect"},
    "sock_connect": {"connect"},
    "sock_read": {"before-status", "mid-status", "mid-header", "before-body", "mid-chunk", "before-terminator", "mid-length-body", "mid-body-after-pause", "after-interim"},
}
FULL = b"HTTP/1.1 200 OK\r\nContent-Length: 4\r\n\r\ndone"


class _FakeSock:
    def __init__(self, n):
        self.n = n
        self.family = socket.AF_INET

    def close(self):
        pass

    def fileno(self):
        return 1000 + self.n

    def getpeername(self):
        return ("10.0.0.1", 80)

    def setsockopt(self, *a):
        pass


class _Resolver(AbstractResolver):
    def __init__(self, scen):
        self.scen = scen

    async def resolve(self, host, port=0, family=socket.AF_INET):
        return await self.scen.resolve(host, port)

    async def close(self):
        pass


class _HappyEyeballs:
    """Stands in for the aiohappyeyeballs module inside aiohttp.connector."""

    def __init__(self, scen, real):
        self.scen = scen
        self.real = real

    async def start_connection(self, addr_infos, **kw):
        return await self.scen.tcp_connect(addr_infos)

    def __getattr__(self, name):
        return getattr(self.real, name)


class Scen:
    horizon = 120.0
    clock_when_ready = False

    def __init__(self, case, loop):
        self.case = case
        self.loop = loop
        self.problems = []
        self.phase = case["phase"]
        self.kind, self.T = case["timeout"]
        self.real_he = connector_mod.aiohappyeyeballs if not isinstance(connector_mod.aiohappyeyeballs, _HappyEyeballs) else connector_mod.aiohappyeyeballs.real
        connector_mod.aiohappyeyeballs = _HappyEyeballs(self, self.real_he)
        connector_mod.create_connection = self._create_connection
        self.dns_futs = []          # [(host, future)]
        self.tcp_futs = []          # [future]
        self.conns = []             # [(client transport, peer transport, peer)]
        self.socks = 0
        self.stalled = False        # the main request reached its stall point
        self.connector = aiohttp.TCPConnector(limit=case.get("limit", 10), resolver=_Resolver(self), use_dns_cache=True, ttl_dns_cache=300)
        # a small read buffer so that a large partial body pauses reading (phase mid-body-after-pause)
        skw = {}
        self.trace_gates = []
        if case.get("trace_suspend"):
            # tracing callbacks that really suspend: each is an await point at which the request can be cancelled
            tc = aiohttp.TraceConfig()

            def mk(name):
                async def cb(session, ctx, params):
                    fut = self.loop.create_future()
                    self.trace_gates.append((name, fut))
                    await fut
                return cb
            for name in ("on_request_start", "on_request_end"):
                getattr(tc, name).append(mk(name[3:]))
            skw["trace_configs"] = [tc]
        self.session = aiohttp.ClientSession(connector=self.connector, cookie_jar=aiohttp.DummyCookieJar(), read_bufsize=1024, **skw)
        self.results = {}
        self.times = {}
        self.tasks = {}
        self.base_tasks = set(asyncio.all_tasks(loop))
        self.started_follow = False
        self.holding = False
        self.holder_gate = None
        if self.phase == "pool":
            # somebody else holds the only slot
            self.holder_gate = loop.create_future()
            self.tasks["holder"] = loop.create_task(self.request("holder", "/holder", hold=True))
            # let the holder really take the slot before the main request arrives
            for _ in range(50):
                loop.drain(200)
                for (_h, f) in self.dns_futs:
                    f.done() or f.set_result(None)
                for f in self.tcp_futs:
                    f.done() or f.set_result(None)
                self._serve()
                if self.holding:
                    break
        if case.get("sibling") and case.get("sib_first"):
            # the sibling starts the DNS lookup, the main request joins it as a throttle waiter
            self.tasks["sib"] = loop.create_task(self.request("sib", "/sib"))
        self.tasks["main"] = loop.create_task(self.request("main", "/main", timeout=self._timeout(), post=self.phase == "body-write"))
        if case.get("sibling") and not case.get("sib_first"):
            self.tasks["sib"] = loop.create_task(self.request("sib", "/sib"))

    def _timeout(self):
        kw = {"total": None, "connect": None, "sock_connect": None, "sock_read": None}
        kw[self.kind] = self.T
        return ClientTimeout(**kw)

    # ---------------------------------------------------------------- application
    async def request(self, name, path, timeout=None, post=False, hold=False):
        t0 = self.loop.time()
        try:
            kw = {}
            if timeout is not None:
                kw["timeout"] = timeout
            if post:
                kw["data"] = b"B" * 200_000
                if self.case.get("upload_after_100"):
                    kw["expect100"] = True
            async with self.session.request("POST" if post else "GET", "http://svc.test" + path, **kw) as resp:
                if hold:
                    self.holding = True
                    await self.holder_gate
                slow = self.case.get("slow_consumer") if name == "main" else None
                if slow:
                    # the whole body is there; the application takes it piece by piece, thinking 2 s in between
                    body = b""
                    for _ in range(6):
                        if slow == "readline":
                            piece = await resp.content.readline()
                        elif slow == "readchunk":
                            piece = (await resp.content.readchunk())[0]
                        elif slow == "readuntil":
                            piece = await resp.content.readuntil(b"\n")
                        else:
                            piece = await resp.content.read(3)
                        body += piece
                        if not piece:
                            break
                        await asyncio.sleep(2)
                else:
                    body = await resp.read()
                self.results[name] = ("ok", resp.status, body)
        except asyncio.CancelledError:
            self.results[name] = ("cancelled",)
            self.times[name] = self.loop.time() - t0
            raise
        except asyncio.TimeoutError as e:
            self.results[name] = ("timeout", type(e).__name__)
        except Exception as e:  # noqa: BLE001
            self.results[name] = ("error", type(e).__name__, str(e)[:60])
        self.times[name] = self.loop.time() - t0
        self.end_abs = dict(getattr(self, "end_abs", {}), **{name: self.loop.time()})

    # ---------------------------------------------------------------- seams
    async def resolve(self, host, port):
        fut = self.loop.create_future()
        self.dns_futs.append((host, fut))
        await fut
        return [{"hostname": host, "host": "10.0.0.1", "port": port, "family": socket.AF_INET, "proto": 0, "flags": socket.AI_NUMERICHOST}]

    async def tcp_connect(self, addr_infos):
        fut = self.loop.create_future()
        self.tcp_futs.append(fut)
        await fut
        self.socks += 1
        return _FakeSock(self.socks)

    async def _create_connection(self, loop, protocol_factory, *a, sock=None, **kw):
        proto = protocol_factory()
        peer = ScriptPeer(self, len(self.conns), None)
        ct, st = pair(self.loop, proto, peer)
        self.conns.append((ct, st, peer))
        if self.phase == "body-write" and asyncio.current_task(self.loop) is self.tasks.get("main") and not self.case.get("upload_after_100"):
            ct.kernel_full = True
            ct.set_write_buffer_limits(high=1024, low=256)
        proto.connection_made(ct)
        peer.connection_made(st)
        return ct, proto

    # ---------------------------------------------------------------- environment
    def _serve(self):
        """Peers answer every complete request except the main one, which stalls at its phase."""
        self.last_io_abs = self.loop.time()      # bytes may move now: a per-read timer legitimately starts afresh
        acted = False
        for idx, (ct, st, peer) in enumerate(self.conns):
            if st.deliverable():
                st.deliver()
                acted = True
            reqs = http1.read_requests(bytes(peer.buf)).messages
            while peer.answered < len(reqs):
                m = reqs[peer.answered]
                path = m.target.decode()
                if path == "/main" and self.case.get("upload_after_100") and not m.complete:
                    # "100 Continue" at once; the upload then crawls (socket buffer full) for 4 s before the peer reads on
                    if not getattr(self, "continue_sent", False):
                        self.continue_sent = True
                        self.continue_at = self.loop.time()       # 0 unless the schedule let time pass before the peer read the head
                        ct.kernel_full = True
                        ct.set_write_buffer_limits(high=1024, low=256)
                        peer.send(b"HTTP/1.1 100 Continue\r\n\r\n")
                        self.loop.call_later(4.0, lambda ct=ct: ct.kernel_full and ct.flush_kernel())
                        acted = True
                    break
                if path == "/main" and self.case.get("redirect"):
                    # the first hop is a redirect whose body comes in a later segment than its head
                    if not m.complete:
                        break
                    if not getattr(self, "redirect_head_sent", False):
                        self.redirect_head_sent = True
                        peer.send(b"HTTP/1.1 302 Found\r\nLocation: /main2\r\nContent-Length: 4\r\n\r\n")
                        acted = True
                        break
                    peer.answered += 1
                    peer.send(b"move")
                    acted = True
                    continue
                if path == "/main2":
                    path = "/main"          # the second hop is the one that stalls
                if path == "/main" and self.case.get("slow_consumer"):
                    if not m.complete:
                        break
                    peer.answered += 1
                    # three of four lines arrive at once, the last one never: the exchange is still open while the
                    # application works through what it has
                    peer.send(b"HTTP/1.1 200 OK\r\nContent-Length: 12\r\n\r\nl1\nl2\nl3\n")
                    acted = True
                    continue
                if path == "/main" and not self.case.get("no_stall"):
                    ph = self.phase
                    if ph in ("pool", "dns", "connect", "body-write"):
                        if not m.complete:
                            break
                        data = FULL           # those phases stall earlier; if we get here, just answer
                    else:
                        data = {
                            "after-interim": b"HTTP/1.1 103 Early Hints\r\nLink: </s.css>\r\n\r\n",     # an interim response, then silence
                            "before-status": b"",
                            "mid-status": b"HTTP/1.1 20",
                            "mid-header": b"HTTP/1.1 200 OK\r\nContent-Le",
                            "before-body": b"HTTP/1.1 200 OK\r\nContent-Length: 4\r\n\r\n",
                            "mid-chunk": b"HTTP/1.1 200 OK\r\nTransfer-Encoding: chunked\r\n\r\n8\r\nabc",
                            "before-terminator": b"HTTP/1.1 200 OK\r\nTransfer-Encoding: chunked\r\n\r\n3\r\nabc\r\n",
                            "mid-length-body": b"HTTP/1.1 200 OK\r\nContent-Length: 10\r\n\r\nabc",
                            # more than 2 x read_bufsize arrives at once: reading is paused, the consumer drains it, reading resumes - and then the peer stalls
                            "mid-body-after-pause": b"HTTP/1.1 200 OK\r\nContent-Length: 10000\r\n\r\n" + b"d" * 5000,
                        }[ph]
                        self.stalled = True
                    peer.answered += 1
                    if data:
                        peer.send(data)
                        acted = True
                    continue
                if not m.complete:
                    break
                peer.answered += 1
                if path == "/holder":
                    # the holder keeps its connection busy: the last body bytes come only when the harness says so
                    peer.send(FULL[:-2])
                    self.holder_peer = peer
                else:
                    peer.send(FULL)
                acted = True
            if ct.deliverable():
                ct.deliver()
                acted = True
        return acted

    def menu(self):
        m = []
        for (name, fut) in self.trace_gates:
            if not fut.done():
                m.append((f"trace.{name}", lambda f=fut: f.done() or f.set_result(None)))
        # DNS answers, TCP connects: stalled only for the main request's phase
        for i, (host, fut) in enumerate(self.dns_futs):
            if not fut.done() and not (self.phase == "dns" and not self._main_over() and not self.case.get("no_stall")):
                m.append((f"dns.{i}", lambda f=fut: f.done() or f.set_result(None)))
        for i, fut in enumerate(self.tcp_futs):
            if not fut.done() and not (self.phase == "connect" and not self._main_over() and not self.case.get("no_stall")):
                m.append((f"tcp.{i}", lambda f=fut: f.done() or f.set_result(None)))
        if any((st.deliverable() or ct.deliverable() or self._peer_has_work(p)) for (ct, st, p) in self.conns):
            m.append(("io", self._serve))
        if self._main_over():
            if self.holder_gate is not None and not self.holder_gate.done():
                m.append(("holder.done", lambda: (self.holder_gate.done() or self.holder_gate.set_result(None), self.holder_peer.send(FULL[-2:]))))
            elif not self.started_follow and all(t.done() for n, t in self.tasks.items() if n != "follow"):
                m.append(("follow", self._follow))
        return m

    def _peer_has_work(self, peer):
        reqs = http1.read_requests(bytes(peer.buf)).messages
        if peer.answered >= len(reqs):
            return False
        m = reqs[peer.answered]
        if m.target == b"/main" and not self.case.get("no_stall"):
            return self.phase not in ("pool", "dns", "connect", "body-write") or m.complete
        return m.complete

    def _main_over(self):
        return self.tasks["main"].done()

    def _follow(self):
        self.started_follow = True
        self.tasks["follow"] = self.loop.create_task(self.request("follow", "/follow"))

    def faults(self):
        f = []
        if "cancel" in self.case.get("faults", ()) and not self.tasks["main"].done():
            f.append(("cancel.main", lambda: (self._note_cancel(), self.tasks["main"].cancel())))
            if not self.started_follow:
                # the debounce pattern: cancel the old request and issue a new one to the same host in the same loop pass
                f.append(("cancel.main+follow", lambda: (self._note_cancel(), self.tasks["main"].cancel(), self._follow())))
        return f

    def _note_cancel(self):
        # was the exchange of /main already complete (whole response delivered) when the caller was cancelled?
        # then its connection is an ordinary idle keep-alive connection, free to be reused
        for (ct, st, peer) in self.conns:
            reqs = http1.read_requests(bytes(peer.buf)).messages
            for k, m in enumerate(reqs):
                if m.target == b"/main" and k < peer.answered and self.case.get("no_stall") and not ct.deliverable():
                    self.main_complete_at_cancel = True

    def P(self, sig, msg):
        self.problems.append((f"C18:{sig}", msg + f" | case {self.case['name']}"))

    def monitor(self):
        pass

    def quiescent(self):
        pass

    # ---------------------------------------------------------------- oracle
    def final(self):
        case = self.case
        main = self.results.get("main")
        covered = self.phase in COVERS[self.kind] and not case.get("no_stall")
        if not self.tasks["main"].done():
            if covered:
                self.P(f"no-timeout:{self.kind}:{self.phase}", f"the request stalls in phase {self.phase} with {self.kind}={self.T} and never fails (t={self.loop.time():g})")
        elif case.get("upload_after_100") and self.tasks["main"].done() and (not main or main[0] != "ok") and getattr(self, "continue_at", None) == 0 and self.times.get("main", 99) < 4.0:
            self.P(f"timeout-while-uploading:{self.kind}", f"{self.kind}={self.T}: the body was still being uploaded (after 100 Continue) when the request ended with {main}; "
                   f"that timeout kind does not cover the upload")
        elif main and main[0] == "timeout":
            bound = self.T + (1.0 if self.T > 5 else 0.0) + 1e-6 + (2.0 if case.get("slow_consumer") else 0.0)   # noticed at its next read
            waited = self.times["main"]
            if self.kind == "sock_read" and getattr(self, "last_io_abs", None) is not None and "main" in getattr(self, "end_abs", {}):
                # sock_read bounds the wait for the *next* bytes: it is measured from the last moment bytes moved
                # (a schedule may let the clock run and then deliver a segment just before the deadline)
                waited = min(waited, self.end_abs["main"] - self.last_io_abs)
            if waited > bound and not case.get("upload_after_100"):      # (there the waiting only starts when the upload ends)
                self.P(f"timeout-late:{self.kind}:{self.phase}", f"{self.kind}={self.T}: failed after {waited:g}s of silence (bound {bound:g})")
        elif main and main[0] == "ok" and case.get("slow_consumer"):
            self.P(f"total-timeout-not-enforced:{case['slow_consumer']}", f"total={self.T}: the exchange took {self.times.get('main'):g}s (a slow consumer) and ended normally with {main[2]!r}")
        elif main and main[0] == "ok" and covered:
            self.P(f"stalled-request-succeeded:{self.phase}", f"result {main}")
        elif main and main[0] == "error" and covered:
            self.P(f"wrong-error:{main[1]}:{self.phase}", f"{self.kind}={self.T} in phase {self.phase} ended with {main[1:]} instead of a timeout error")
        over = self.tasks["main"].done()
        if over and main and main[0] in ("timeout", "cancelled", "error"):
            # residue
            c = self.connector
            rest = [n for n, t in self.tasks.items() if not t.done()]
            if not rest:
                if c._acquired:
                    self.P("residue:acquired", f"{len(c._acquired)} connection(s) still counted as in use after everything finished")
                if any(v for v in c._waiters.values()):
                    self.P("residue:waiters", "pool waiters left behind")
            # the main request's connection must not be reused: the follow-up / sibling may not travel on it
            for idx, (ct, st, peer) in enumerate(self.conns):
                paths = [m.target for m in http1.read_requests(bytes(peer.buf)).messages]
                if b"/main" in paths and self.phase not in ("pool", "dns", "connect") and not getattr(self, "main_complete_at_cancel", False):
                    later = paths[paths.index(b"/main") + 1:]
                    if later:
                        self.P("connection-reused-after-timeout", f"connection {idx} carried {later} after the failed /main")
                    if not ct.is_closing() and not rest:
                        self.P("connection-left-open", f"connection {idx} of the failed request is still open")
            extra = [t for t in asyncio.all_tasks(self.loop) if t not in self.base_tasks and t not in self.tasks.values() and not t.done()]
            if extra and not rest:
                self.P("residue:background-task", f"{len(extra)} task(s) of the finished requests still alive: {[t.get_coro().__qualname__ for t in extra][:3]}")
        # bystanders
        for name in ("sib", "follow", "holder"):
            if name in self.tasks and over:
                r = self.results.get(name)
                if not self.tasks[name].done():
                    self.P(f"bystander-blocked:{name}", f"the {name} request never finished (main: {main}, phase {self.phase})")
                elif r is None or r[0] != "ok" or r[1] != 200 or r[2] != b"done":
                    self.P(f"bystander-failed:{name}:{(r or ('?',))[0]}", f"the {name} request ended with {r} (main: {main}, phase {self.phase})")
        if over and not self.started_follow and all(t.done() for t in self.tasks.values()):
            self.P("harness:no-follow-up", "follow-up was never issued")
        for e in self.loop.collect_exceptions():
            msg = str(e.get("message"))
            if "Unclosed" in msg:
                continue
            self.P("loop-exception", f"{msg} {e.get('exception')!r}")
        return (main, self.results.get("sib"), self.results.get("follow"), len(self.conns))

    def state(self):
        return None

    def close(self):
        for t in self.tasks.values():
            if not t.done():
                t.cancel()
        self.connector._close_immediately()
        connector_mod.aiohappyeyeballs = self.real_he


def factory(case, loop):
    return Scen(case, loop)


def cases(quick):
    out = []
    for phase in PHASES:
        for kind in ("total", "connect", "sock_connect", "sock_read"):
            for T in (3.0, 7.5):
                if phase not in COVERS[kind] and T != 3.0:
                    continue
                for sibling in (False, True):
                    name = f"{phase}/{kind}={T:g}/{'sib' if sibling else 'alone'}"
                    c = {"name": name, "phase": phase, "timeout": (kind, T), "sibling": sibling, "faults": ["cancel"]}
                    if phase == "pool":
                        c["limit"] = 1
                    if phase not in COVERS[kind]:
                        c["faults"] = ["cancel"]
                    out.append(c)
    # a shared in-flight DNS lookup whose answer arrives while the other request is cancelled or times out
    for kind, T in (("total", 3.0), ("connect", 3.0)):
        for first in (False, True):
            out.append({"name": f"dns-share/{kind}={T:g}/{'sib' if first else 'main'}-owns-lookup", "phase": "before-status", "timeout": (kind, T),
                        "sibling": True, "sib_first": first, "faults": ["cancel"], "no_stall": True})
    # tracing callbacks that suspend: cancellation while the request sits in one of them
    for phase in ("before-status", "mid-length-body", "before-body"):
        out.append({"name": f"{phase}/total=7.5/traced", "phase": phase, "timeout": ("total", 7.5), "sibling": False, "faults": ["cancel"], "trace_suspend": True})
    out.append({"name": "healthy/traced", "phase": "before-status", "timeout": ("total", 3.0), "sibling": True, "faults": ["cancel"], "no_stall": True, "trace_suspend": True})
    # a redirect first (its body arrives behind its head), the stall on the second hop: the total timeout spans both
    for phase in ("before-status", "mid-length-body"):
        for T in (3.0, 7.5):
            out.append({"name": f"redirect-then-{phase}/total={T:g}", "phase": phase, "timeout": ("total", T), "sibling": False, "faults": ["cancel"], "redirect": True})
    # Expect: 100-continue, then an upload that takes longer than sock_read / sock_connect: neither covers it
    for kind in ("sock_read",):
        out.append({"name": f"upload-after-100/{kind}=3", "phase": "body-write", "timeout": (kind, 3.0), "sibling": False, "faults": [], "upload_after_100": True})
    # the peer is prompt, the application is slow: the total timeout still bounds the exchange, whatever read API is used
    for how in ("read3", "readline", "readchunk", "readuntil"):
        out.append({"name": f"slow-consumer/{how}/total=3", "phase": "before-status", "timeout": ("total", 3.0), "sibling": False, "faults": [], "no_stall": True,
                    "slow_consumer": how})
    # no stall at all: timeouts must not fire on a healthy exchange
    for kind in ("total", "connect", "sock_connect", "sock_read"):
        out.append({"name": f"healthy/{kind}=3", "phase": "before-status", "timeout": (kind, 3.0), "sibling": True, "faults": [], "no_stall": True})
    return out


def _job(job):
    case, bound = job
    part = Part()
    name = case["name"]

    def on_exec(ex):
        part.count("executions")
        part.count("transitions", ex.passes)
        part.outcome((name, ex.obs))
        part.state((case["phase"], case["timeout"][0], ex.obs))
        for sig, msg in ex.problems:
            part.violation(sig, msg[:500] + f" | schedule={explorer.schedule_of(ex)}", {"case": case, "prefix": explorer.prefix_of(ex)})
        if ex.capped:
            part.cap(f"pass horizon hit in {name}")

    st = explorer.explore(factory, case, bound, max_execs=20000, max_passes=3000, on_exec=on_exec)
    if st["truncated"]:
        part.cap(f"execution cap hit for {name} (complete up to bound {st['completed_bound']}, {st['executions']} executions reported)")
    part.sample({"case": name, "bound": bound, "executions": st["executions"]})
    return part


def run(ctx):
    ctx.rule = (
        "scenarios = stall phase (11) x timeout kind (total, connect, sock_connect, sock_read) x value below/above the 5 s ceiling threshold x with/without a "
        "sibling request sharing the pool queue or the DNS lookup, plus healthy exchanges; executions = all schedules with <= d deviations over DNS/TCP completion "
        "order, I/O, cancellation of the stalled request at any loop pass and the clock; outcomes distinct by (scenario, results of main/sibling/follow-up, connections opened)"
    )
    ctx.assumptions += [
        "real ClientSession + TCPConnector; resolver scripted; aiohttp.connector.aiohappyeyeballs.start_connection and create_connection rebound to the in-memory wire",
        "a timeout kind is judged only in the phases it documents (connect: pool + DNS + TCP connect; sock_connect: TCP connect; sock_read: waiting for response bytes)",
        "bound = configured value, +1 s when it exceeds the 5 s ceiling threshold; the clock never advances while callbacks are queued",
    ]
    bound = 1 if ctx.quick else 2
    cs = cases(ctx.quick)
    for part in ctx.pmap(_job, [(c, bound) for c in cs]):
        ctx.merge(part)
    ctx.notes["deviation_bound"] = bound
    ctx.notes["scenarios"] = len(cs)


def replay(case):
    c = dict(case["case"], timeout=tuple(case["case"]["timeout"]))
    prefix = [(tuple(l), ch) for l, ch in case["prefix"]]
    ex = explorer.run_one(factory, c, prefix, max_passes=3000)
    return [{"sig": s, "msg": m, "case": case} for s, m in ex.problems]
