"""C15 Static file serving stays inside its root and serves exact bytes.

Exhaustive enumeration (SEQ/STREAM family, DESIGN §3 C15) against a real temp-directory tree:

traversal  every request target made of <= d segments over a 19-symbol alphabet (dot segments, encoded
           dots / slashes / backslashes, empty segments, drive and UNC forms, NUL, names of files,
           directories and symlinks pointing inside and outside, a sibling directory sharing the root's
           name prefix), sent as a raw request line to a real web.Application with a static route,
           x follow_symlinks x show_index.  Every file carries its real location as content: a 200/206
           body must come from a regular file inside the root (or through a symlink when following was
           enabled); listings only with show_index.
ranges     every Range `bytes=a-b`, `a-`, `-s` with a,b,s in 0..7, malformed forms, x file sizes
           {0,1,2,5} x conditional headers (If-Range, If-(None-)Match, If-(Un)Modified-Since hit/miss):
           status, Content-Range, Content-Length and body must be mutually consistent and equal the
           RFC 9110 slice.
"""
from __future__ import annotations

import itertools
import os
import re
import shutil
import tempfile
import time

from aiohttp import web

from mc.core import Part
from mc.vloop import VLoop
from mc.wire import SinkProtocol, pair

PROPERTY = "C15"
MTIME = 1_600_000_000


class Env:
    """A real application with one static route on the virtual loop; executor jobs (file I/O) are run inline."""

    def __init__(self, root, **static_kw):
        self.loop = VLoop().hold()
        app = web.Application()
        app.router.add_static("/static", root, **static_kw)
        self.runner = web.AppRunner(app)
        t = self.loop.create_task(self.runner.setup())
        self.pump()
        t.result()

    def pump(self, n=50):
        for _ in range(n):
            self.loop.drain(500)
            if not self.loop.exec_jobs:
                break
            while self.loop.exec_jobs:
                self.loop.complete_exec_job(0)

    def request(self, raw: bytes) -> bytes:
        proto = self.runner.server()
        client = SinkProtocol()
        st, ct = pair(self.loop, proto, client)
        client.connection_made(ct)
        proto.connection_made(st)
        ct.write(raw)
        st.deliver()
        for _ in range(30):
            self.pump()
            if ct.deliverable():
                ct.deliver()
            elif not self.loop.has_ready() and not self.loop.exec_jobs:
                break
        if not st.is_closing():
            st.close()
            self.pump(3)
        return bytes(client.received)

    def close(self):
        try:
            t = self.loop.create_task(self.runner.cleanup())
            self.pump()
        finally:
            self.loop.finish()


def parse_response(raw: bytes):
    i = raw.find(b"\r\n\r\n")
    if i < 0:
        return None
    head = raw[:i].split(b"\r\n")
    m = re.match(rb"HTTP/1\.[01] (\d{3})", head[0])
    if not m:
        return None
    hdr = {}
    for l in head[1:]:
        k, _, v = l.partition(b":")
        hdr[k.strip().lower().decode()] = v.strip().decode("latin1")
    body = raw[i + 4:]
    if hdr.get("transfer-encoding", "").lower() == "chunked":
        out = bytearray()
        p = 0
        while True:
            e = body.find(b"\r\n", p)
            if e < 0:
                break
            n = int(body[p:e].split(b";")[0] or b"0", 16)
            if n == 0:
                break
            out += body[e + 2:e + 2 + n]
            p = e + 2 + n + 2
        body = bytes(out)
    return int(m.group(1)), hdr, body


# ============================================================ traversal
def make_tree():
    base = tempfile.mkdtemp(prefix="c15-")
    root = os.path.join(base, "root")
    os.makedirs(os.path.join(root, "dir", "sub"))
    os.makedirs(os.path.join(base, "outside", "odir"))
    os.makedirs(os.path.join(base, "root-private"))

    def w(rel, marker):
        p = os.path.join(base, rel)
        with open(p, "w") as f:
            f.write(f"{marker}:{rel}\n")
        os.utime(p, (MTIME, MTIME))

    w("root/file.txt", "INSIDE")
    w("root/dir/file2.txt", "INSIDE")
    w("root/dir/sub/file3.txt", "INSIDE")
    w("outside/secret.txt", "OUTSIDE")
    w("outside/odir/deep.txt", "OUTSIDE")
    w("root-private/secret2.txt", "OUTSIDE")
    w("rootfile.txt", "OUTSIDE")
    os.symlink("file.txt", os.path.join(root, "link_in"))
    os.symlink("../outside/secret.txt", os.path.join(root, "link_out"))
    os.symlink("../outside", os.path.join(root, "link_dir"))
    os.symlink(os.path.join(base, "root-private", "secret2.txt"), os.path.join(root, "dir", "link_abs"))
    return base, root


SEGS = ["..", ".", "%2e%2e", ".%2E", "%2f", "%5c", "\\", "", "dir", "file.txt", "link_out", "link_dir", "link_in", "C:", "%00",
        "secret.txt", "..%2f..%2foutside%2fsecret.txt", "..%2froot-private%2fsecret2.txt", "odir"]
EXTRA = ["..%2f..%2f..%2f..%2f..%2fetc%2fpasswd", "%2e%2e/%2e%2e/outside/secret.txt", "dir/../../outside/secret.txt", "dir/link_abs",
         "link_dir/odir/deep.txt", "link_dir/../root-private/secret2.txt", "//etc/passwd", "dir/..%2f..%2frootfile.txt", "../rootfile.txt",
         "..%2frootfile.txt", "%2e%2e%2frootfile.txt", "link_in", "dir/sub/../../file.txt", "....//outside/secret.txt", "..;/outside/secret.txt",
         "..%252f..%252foutside%252fsecret.txt", "%c0%ae%c0%ae/outside/secret.txt", "..\\outside\\secret.txt", "..%5coutside%5csecret.txt"]


def targets(depth):
    out = []
    for d in range(1, depth + 1):
        for combo in itertools.product(SEGS, repeat=d):
            out.append("/".join(combo))
    out += EXTRA
    seen = set()
    return [t for t in out if not (t in seen or seen.add(t))]


def _job_traversal(job):
    follow, show_index, tlist = job
    part = Part()
    base, root = make_tree()
    env = None
    try:
        env = Env(root, break_symlink_sandbox=follow, show_index=show_index)
        for t in tlist:
            raw = env.request(b"GET /static/" + t.encode("latin1") + b" HTTP/1.1\r\nHost: a\r\n\r\n")
            part.count("executions")
            part.count("transitions")
            r = parse_response(raw)
            case = {"kind": "traversal", "follow": follow, "show_index": show_index, "target": t}
            if r is None:
                part.outcome(("no-response",))
                continue
            status, hdr, body = r
            part.outcome((status, body[:7]))
            part.state((follow, show_index, status, body[:24]))
            if status in (200, 206):
                if body.startswith(b"OUTSIDE:"):
                    via_link = follow and re.search(r"link_(out|dir|abs)", t)
                    if not via_link:
                        part.violation(f"C15:traversal:outside-root:follow={int(follow)}",
                                       f"GET /static/{t} (follow_symlinks={follow}) served {body[:60]!r}", case)
                elif b"Index of" in body:
                    if not show_index:
                        part.violation("C15:traversal:listing-without-show_index", f"GET /static/{t} returned a directory listing", case)
                    if b"secret" in body or b"deep.txt" in body:
                        if not (follow and "link_dir" in t):
                            part.violation("C15:traversal:listing-outside-root", f"GET /static/{t} listed a directory outside the root: {body[:120]!r}", case)
                elif not body.startswith(b"INSIDE:"):
                    part.violation("C15:traversal:unexpected-content", f"GET /static/{t} -> {status} with body {body[:60]!r}", case)
            elif status >= 500:
                part.count("server_errors")     # not a confinement matter (e.g. listing a symlinked directory outside the root fails with 500)
        part.state((follow, show_index))
        part.sample({"section": "traversal", "follow_symlinks": follow, "show_index": show_index, "target": tlist[len(tlist) // 2]})
    finally:
        if env is not None:
            env.close()
        shutil.rmtree(base, ignore_errors=True)
    return part


# ============================================================ ranges
def http_date(t):
    return time.strftime("%a, %d %b %Y %H:%M:%S GMT", time.gmtime(t))


def range_ref(spec, size):
    """('whole',) | ('slice', s, e) | ('unsat',) | ('invalid',) for one Range header value."""
    m = re.fullmatch(r"bytes=([0-9]*)-([0-9]*)", spec)
    if not m or (m.group(1) == "" and m.group(2) == ""):
        return ("invalid",)
    a, b = m.group(1), m.group(2)
    if a == "":
        s = int(b)
        if s == 0 or size == 0:
            return ("unsat",)
        return ("slice", max(0, size - s), size - 1)
    a = int(a)
    if b != "" and int(b) < a:
        return ("invalid",)
    if a >= size:
        return ("unsat",)
    e = size - 1 if b == "" else min(int(b), size - 1)
    return ("slice", a, e)


def range_specs():
    out = []
    for a in range(8):
        out.append(f"bytes={a}-")
        out.append(f"bytes=-{a}")
        for b in range(8):
            out.append(f"bytes={a}-{b}")
    out += ["bytes=", "bytes=-", "bytes=a-b", "items=0-1", "bytes=0-1,3-4", "bytes= 0-1", "bytes=0 - 1", "bytes=0x1-2", "bytes=+1-2", "BYTES=0-1",
            "bytes=٠-١", "bytes=00-01", "bytes=1-99999999999999999999", "bytes=-99999999999999999999"]
    return out


def _job_ranges(job):
    size, conds = job
    part = Part()
    base = tempfile.mkdtemp(prefix="c15r-")
    env = None
    try:
        data = bytes(range(65, 65 + size))
        p = os.path.join(base, "f.bin")
        with open(p, "wb") as f:
            f.write(data)
        os.utime(p, (MTIME, MTIME))
        st = os.stat(p)
        etag = f'"{st.st_mtime_ns:x}-{st.st_size:x}"'
        env = Env(base)
        for cname in conds:
            extra = {
                "none": "",
                "if-range-same": f"If-Range: {http_date(MTIME)}\r\n",
                "if-range-older": f"If-Range: {http_date(MTIME - 100)}\r\n",
                "if-range-newer": f"If-Range: {http_date(MTIME + 100)}\r\n",
                "if-range-etag-same": f"If-Range: {etag}\r\n",
                "if-range-etag-other": 'If-Range: "does-not-match"\r\n',
                "if-range-etag-weak": f"If-Range: W/{etag}\r\n",        # RFC 9110 13.1.5: strong comparison, a weak tag never matches
                "if-none-match-hit": f"If-None-Match: {etag}\r\n",
                "if-none-match-miss": 'If-None-Match: "nope"\r\n',
                "if-none-match-star": "If-None-Match: *\r\n",
                "if-match-hit": f"If-Match: {etag}\r\n",
                "if-match-miss": 'If-Match: "nope"\r\n',
                "if-modified-since-same": f"If-Modified-Since: {http_date(MTIME)}\r\n",
                "if-modified-since-older": f"If-Modified-Since: {http_date(MTIME - 100)}\r\n",
                "if-unmodified-since-same": f"If-Unmodified-Since: {http_date(MTIME)}\r\n",
                "if-unmodified-since-older": f"If-Unmodified-Since: {http_date(MTIME - 100)}\r\n",
            }[cname]
            for spec in [None] + range_specs():
                for method in ("GET", "HEAD"):
                    rng = f"Range: {spec}\r\n" if spec is not None else ""
                    raw = env.request(f"{method} /static/f.bin HTTP/1.1\r\nHost: a\r\n{rng}{extra}\r\n".encode("utf-8"))
                    part.count("executions")
                    part.count("transitions")
                    case = {"kind": "range", "size": size, "cond": cname, "range": spec, "method": method}
                    r = parse_response(raw)
                    if r is None:
                        part.violation("C15:range:no-response", f"{method} size={size} Range={spec} {cname}: no response: {raw[:60]!r}", case)
                        continue
                    judge_range(part, case, r, data, spec, cname, method)
        part.state(("ranges", size))
        part.sample({"section": "ranges", "size": size, "conditions": conds})
    finally:
        if env is not None:
            env.close()
        shutil.rmtree(base, ignore_errors=True)
    return part


def judge_range(part, case, r, data, spec, cname, method):
    status, hdr, body = r
    size = len(data)
    tag = f"{method} size={size} Range={spec} {cname}"
    part.outcome((status, cname, method, spec is not None and range_ref(spec, size)[0]))
    part.state((size, status, hdr.get("content-range"), cname, method))

    def V(sig, msg):
        part.violation(f"C15:range:{sig}", f"{tag}: {msg}", case)

    # ---- preconditions that answer without a body
    expect = None
    if cname == "if-match-miss" or cname == "if-unmodified-since-older":
        expect = 412
    elif cname in ("if-none-match-hit", "if-none-match-star", "if-modified-since-same"):
        expect = 304
    if expect is not None:
        if status != expect:
            V(f"precondition:{cname}:{status}", f"status {status}, expected {expect}")
        elif body:
            V("body-with-304-412", f"{len(body)} body bytes with status {status}")
        return
    # ---- which range applies
    use_range = spec is not None and cname not in ("if-range-older", "if-range-etag-other", "if-range-etag-weak")
    ref = range_ref(spec, size) if use_range else ("whole",)
    cl = hdr.get("content-length")
    cr = hdr.get("content-range")
    if status == 206:
        m = re.fullmatch(r"bytes (\d+)-(\d+)/(\d+)", cr or "")
        if not m:
            V("206-bad-content-range", f"Content-Range {cr!r}")
            return
        s, e, total = map(int, m.groups())
        if not (0 <= s <= e < size) or total != size:
            V("206-inconsistent-content-range", f"Content-Range {cr!r} for a file of {size} bytes")
            return
        if cl is None or int(cl) != e - s + 1:
            V("206-content-length", f"Content-Length {cl} with Content-Range {cr}")
        if method == "GET" and body != data[s:e + 1]:
            V("206-body-differs", f"body {body!r} is not file[{s}:{e + 1}] = {data[s:e + 1]!r}")
        if ref[0] == "slice" and (s, e) != (ref[1], ref[2]):
            V("206-wrong-slice", f"served bytes {s}-{e}, the requested range is {ref[1]}-{ref[2]}")
        if ref[0] in ("unsat",):
            V("206-for-unsatisfiable-range", f"served {cr} for an unsatisfiable range")
        if ref[0] == "whole":
            V("206-without-range", f"206 although no Range applies ({cname})")
    elif status == 200:
        if cl is None or int(cl) != size:
            V("200-content-length", f"Content-Length {cl} for a file of {size} bytes")
        if method == "GET" and body != data:
            V("200-body-differs", f"body {body!r} != file {data!r}")
        if ref[0] == "slice":
            V("range-ignored", f"valid satisfiable range answered with 200")
    elif status == 416:
        if cr != f"bytes */{size}":
            V("416-content-range", f"Content-Range {cr!r}, expected 'bytes */{size}'")
        if ref[0] in ("slice", "whole"):
            V("416-for-satisfiable-range", f"416 although the range {ref} is satisfiable")
    else:
        V(f"unexpected-status:{status}", f"status {status}")
    if method == "HEAD" and body:
        V("head-with-body", f"{len(body)} body bytes in answer to HEAD")


CONDS = ["none", "if-range-same", "if-range-older", "if-range-newer", "if-range-etag-same", "if-range-etag-other", "if-range-etag-weak", "if-none-match-hit", "if-none-match-miss", "if-none-match-star", "if-match-hit",
         "if-match-miss", "if-modified-since-same", "if-modified-since-older", "if-unmodified-since-same", "if-unmodified-since-older"]


def _job_served_etag(job):
    """The validator a client holds is the one it was *served*: for a plain file and for a pre-compressed sibling,
    a first request reads ETag and Last-Modified, a second one echoes them in every conditional header."""
    (size,) = job
    import gzip as _gzip

    part = Part()
    base = tempfile.mkdtemp(prefix="c15e-")
    env = None
    try:
        data = bytes(range(65, 65 + size))
        with open(os.path.join(base, "f.bin"), "wb") as f:
            f.write(data)
        gz = _gzip.compress(data, mtime=0)
        with open(os.path.join(base, "f.bin.gz"), "wb") as f:
            f.write(gz)
        for n in ("f.bin", "f.bin.gz"):
            os.utime(os.path.join(base, n), (MTIME, MTIME))
        env = Env(base)
        for ae, served in (("", data), ("Accept-Encoding: gzip\r\n", gz)):
            for method in ("GET", "HEAD"):
                r0 = parse_response(env.request(f"{method} /static/f.bin HTTP/1.1\r\nHost: a\r\n{ae}\r\n".encode()))
                part.count("executions")
                case = {"kind": "served-etag", "size": size, "accept_encoding": bool(ae), "method": method}
                tag = f"{method} size={size} {'gzip sibling' if ae else 'plain'}"
                if r0 is None or r0[0] != 200 or not r0[1].get("etag"):
                    part.violation("C15:served-etag:first-response", f"{tag}: first response {r0 and (r0[0], r0[1])}", case)
                    continue
                etag = r0[1]["etag"]
                if method == "GET" and r0[2] != served:
                    part.violation("C15:served-etag:first-body", f"{tag}: body is not the {'compressed sibling' if ae else 'file'}", case)
                n = len(served)
                steps = [
                    ("if-none-match", f"If-None-Match: {etag}\r\n", 304, None),
                    ("if-match", f"If-Match: {etag}\r\n", 200, served),
                ]
                if n >= 2:
                    steps += [
                        ("if-match+range", f"If-Match: {etag}\r\nRange: bytes=1-1\r\n", 206, served[1:2]),
                        ("if-range+range", f"If-Range: {etag}\r\nRange: bytes=0-0\r\n", 206, served[0:1]),
                    ]
                for name, extra, want_status, want_body in steps:
                    r = parse_response(env.request(f"{method} /static/f.bin HTTP/1.1\r\nHost: a\r\n{ae}{extra}\r\n".encode()))
                    part.count("executions")
                    part.count("transitions")
                    part.outcome(("served-etag", name, bool(ae), method, r and r[0]))
                    if r is None or r[0] != want_status:
                        part.violation(f"C15:served-etag:{name}:{r and r[0]}",
                                       f"{tag}: the ETag the server sent ({etag}) echoed in {name}: status {r and r[0]}, expected {want_status}", case)
                    elif method == "GET" and want_body is not None and r[2] != want_body:
                        part.violation(f"C15:served-etag:{name}:body", f"{tag}: body {r[2][:20]!r}, expected {want_body[:20]!r}", case)
        part.state(("served-etag", size))
    finally:
        if env is not None:
            env.close()
        shutil.rmtree(base, ignore_errors=True)
    return part


def _dispatch(job):
    if job[0] == "etag":
        return _job_served_etag(job[1:])
    if job[0] == "trav":
        return _job_traversal(job[1:])
    return _job_ranges(job[1:])


def run(ctx):
    ctx.rule = (
        "traversal: every target of <= d segments over 19 segment forms (+19 classic payloads) x follow_symlinks x show_index as a raw request line; "
        "ranges: (96 well-formed + 14 malformed Range values + none) x file sizes {0,1,2,5} x 13 conditional-header cases x {GET, HEAD}; "
        "outcomes distinct by (status, content marker) / (status, condition, method, reference verdict)"
    )
    ctx.assumptions += [
        "real web.Application + add_static on the virtual loop; executor jobs (stat/open/read) run inline; loop.sendfile is unavailable (aiohttp's documented fallback path)",
        "every file's content names its real location; a symlink target outside the root may only be served when follow_symlinks=True and the request names the symlink",
        "a malformed Range may be ignored (200) or refused (416); a valid satisfiable one must be answered 206 with exactly that slice",
    ]
    depth = 2 if ctx.quick else 3
    tl = targets(depth)
    jobs = []
    for follow in (False, True):
        for show in (False, True):
            for i in range(0, len(tl), 120):
                jobs.append(("trav", follow, show, tl[i:i + 120]))
    for size in (0, 1, 2, 5):
        for i in range(0, len(CONDS), 3):
            jobs.append(("rng", size, CONDS[i:i + 3]))
    for size in (0, 1, 2, 5):
        jobs.append(("etag", size))
    for part in ctx.pmap(_dispatch, jobs):
        ctx.merge(part)
    ctx.notes["targets"] = len(tl)
    ctx.notes["target_depth"] = depth


def replay(case):
    if case["kind"] == "traversal":
        return _job_traversal((case["follow"], case["show_index"], [case["target"]])).violations
    if case["kind"] == "served-etag":
        part = _job_served_etag((case["size"],))
        return [v for v in part.violations if v["case"] == case]
    part = _job_ranges((case["size"], [case["cond"]]))
    return [v for v in part.violations if v["case"].get("range") == case["range"] and v["case"].get("method") == case["method"]]
