"""C07 Connection pool: limits hold, nothing leaks, no waiter is forgotten.

SCHED engine: N client tasks call the real BaseConnector.connect() for H keys
under (limit, limit_per_host); every connection attempt is a harness future that
the environment completes (ok / fail), holders release or close on an event, any
task may be cancelled and the connector closed at any boundary.  All schedules
with <= d deviations from the default script are enumerated.  DESIGN §3 C07.
"""
from __future__ import annotations

import asyncio

import aiohttp.connector as connector_mod
from aiohttp.client import ClientTimeout
from aiohttp.client_proto import ResponseHandler
from aiohttp.client_reqrep import ConnectionKey
from aiohttp.connector import BaseConnector

from mc import explorer
from mc.core import Part
from mc.wire import SinkProtocol, pair

PROPERTY = "C07"
explorer.PROP = PROPERTY


class _Shuffle:
    """Stands in for the `random` module inside aiohttp.connector."""

    def __init__(self, reverse):
        self.reverse = reverse

    def shuffle(self, seq):
        if self.reverse:
            seq.reverse()


class _Req:
    def __init__(self, key):
        self.connection_key = key
        self.proxy = None


class _Connector(BaseConnector):
    def __init__(self, scen, **kw):
        super().__init__(**kw)
        self.scen = scen

    async def _create_connection(self, req, traces, timeout):
        return await self.scen.attempt(req)


def key(h):
    return ConnectionKey(f"h{h}", 80, False, True, None, None, None)


class Scen:
    horizon = 100.0

    def __init__(self, case, loop):
        self.case = case
        self.loop = loop
        self.problems = []
        connector_mod.random = _Shuffle(case.get("reverse", False))
        self.conn = _Connector(self, limit=case["limit"], limit_per_host=case["per_host"],
                               force_close=case.get("force_close", False))
        self.n = case["tasks"]
        self.hosts = case["hosts"]          # host index per task
        self.modes = case.get("modes") or ["release"] * self.n   # what the holder does by default
        self.phase = ["new"] * self.n       # new|connecting|holding|done|failed|cancelled
        self.attempting = [False] * self.n  # inside _create_connection
        self.attempts = []                  # [(task index, future)] pending connection attempts
        self.holds = [None] * self.n        # future the holder waits on
        self.conns = [None] * self.n
        self.transports = []
        self.closed = False
        self.close_task = None
        self.result = [None] * self.n
        self.timeout = ClientTimeout(connect=case.get("connect_timeout"))
        # tasks listed in case["late"] call connect() only when the environment says so
        self.starts = [loop.create_future() if i in case.get("late", ()) else None for i in range(self.n)]
        # client tracing with callbacks that really suspend: every connection trace point becomes an await point
        # at which the request can be cancelled or overtaken
        self.trace_gates = []               # [(task index, signal name, future)]
        self.traces = [[] for _ in range(self.n)]
        if case.get("trace"):
            from aiohttp.tracing import Trace, TraceConfig
            for i in range(self.n):
                tc = TraceConfig()
                for name in ("on_connection_queued_start", "on_connection_queued_end", "on_connection_create_start",
                             "on_connection_create_end", "on_connection_reuseconn"):
                    getattr(tc, name).append(self._trace_cb(i, name[len("on_connection_"):]))
                tc.freeze()
                self.traces[i] = [Trace(None, tc, tc.trace_config_ctx())]
        self.tasks = [loop.create_task(self.client(i)) for i in range(self.n)]
        self.reused = 0

    # ---- the application -------------------------------------------------
    async def client(self, i):
        if self.starts[i] is not None:
            await self.starts[i]
        self.phase[i] = "connecting"
        try:
            conn = await self.conn.connect(_Req(key(self.hosts[i])), self.traces[i], self.timeout)
        except asyncio.CancelledError:
            self.phase[i] = "cancelled"
            self.attempting[i] = False
            raise
        except BaseException as e:  # noqa: BLE001
            self.phase[i] = "failed"
            self.attempting[i] = False
            self.result[i] = type(e).__name__
            return
        self.attempting[i] = False
        self.conns[i] = conn
        self.phase[i] = "holding"
        self.holds[i] = self.loop.create_future()
        try:
            what = await self.holds[i]
        except asyncio.CancelledError:
            # a cancelled request closes its connection (what ClientSession does)
            conn.close()
            self.phase[i] = "cancelled"
            raise
        if what == "close":
            conn.close()
        else:
            conn.release()
        self.phase[i] = "done"

    def _trace_cb(self, i, name):
        async def cb(session, ctx, params):
            fut = self.loop.create_future()
            self.trace_gates.append((i, name, fut))
            try:
                await fut
            finally:
                self.trace_gates = [g for g in self.trace_gates if g[2] is not fut]
        return cb

    async def attempt(self, req):
        i = next(k for k in range(self.n) if self.phase[k] == "connecting" and not self.attempting[k]
                 and key(self.hosts[k]) == req.connection_key and self._in_create(k))
        self.attempting[i] = True
        fut = self.loop.create_future()
        self.attempts.append((i, fut))
        try:
            ok = await fut
        finally:
            self.attempts = [(k, f) for (k, f) in self.attempts if f is not fut]
        if not ok:
            raise OSError("connect failed")
        proto = ResponseHandler(self.loop)
        sink = SinkProtocol()
        ct, st = pair(self.loop, proto, sink)
        proto.connection_made(ct)
        self.transports.append(ct)
        return proto

    def _in_create(self, k):
        # the task currently executing is the one calling attempt()
        return asyncio.current_task(self.loop) is self.tasks[k]

    # ---- environment -------------------------------------------------------
    def menu(self):
        m = []
        for (i, name, fut) in self.trace_gates:
            if not fut.done():
                m.append((f"trace.t{i}.{name}", lambda f=fut: f.done() or f.set_result(None)))
        for idx, (i, fut) in enumerate(self.attempts):
            if not fut.done():
                m.append((f"conn.t{i}.ok", lambda f=fut: f.done() or f.set_result(True)))
        for i in range(self.n):
            h = self.holds[i]
            if self.phase[i] == "holding" and h is not None and not h.done():
                mode = self.modes[i]
                m.append((f"{mode}.t{i}", lambda h=h, mode=mode: h.done() or h.set_result(mode)))
        for i in range(self.n):
            st = self.starts[i]
            if st is not None and not st.done() and not self.closed:      # nobody issues requests on a closed connector
                m.append((f"start.t{i}", lambda st=st: st.done() or self.closed or st.set_result(None)))
        return m

    def faults(self):
        f = []
        for idx, (i, fut) in enumerate(self.attempts):
            if not fut.done():
                f.append((f"conn.t{i}.fail", lambda fu=fut: fu.done() or fu.set_result(False)))
        for i in range(self.n):
            if self.phase[i] in ("connecting", "holding") and not self.tasks[i].done() and "cancel" in self.case["faults"]:
                f.append((f"cancel.t{i}", self.tasks[i].cancel))
            h = self.holds[i]
            if self.phase[i] == "holding" and h is not None and not h.done() and "altmode" in self.case["faults"]:
                other = "close" if self.modes[i] == "release" else "release"
                f.append((f"{other}.t{i}", lambda h=h, other=other: h.done() or h.set_result(other)))
        if not self.closed and "close" in self.case["faults"]:
            f.append(("connector.close", self._close))
        if not self.closed and "burst" in self.case["faults"]:
            # several things in one loop iteration: everything the environment could do now, and close() behind it
            acts = [a for (_n, a) in self.menu()]
            if acts:
                def burst(acts=acts):
                    for a in acts:
                        a()
                    self._close()
                f.append(("burst+close", burst))
        return f

    def _close(self):
        if not self.closed:
            self.closed = True
            self.close_task = self.loop.create_task(self.conn.close())

    # ---- oracle ----------------------------------------------------------------
    def P(self, sig, msg):
        self.problems.append((f"C07:{sig}", msg))

    def in_use(self, i):
        return self.phase[i] == "holding" or (self.phase[i] == "connecting" and self.attempting[i])

    def monitor(self):
        c = self.conn
        used = [i for i in range(self.n) if self.in_use(i)]
        lim, per = self.case["limit"], self.case["per_host"]
        if lim and len(used) > lim:
            self.P("limit-exceeded", f"{len(used)} connections in use or being established, limit {lim}: phases {self.phase}")
        if per:
            for h in set(self.hosts):
                k = sum(1 for i in used if self.hosts[i] == h)
                if k > per:
                    self.P("limit-per-host-exceeded", f"{k} connections for host h{h}, limit_per_host {per}: phases {self.phase}")
        if not c._closed and len(c._acquired) != len(used) and not self.case.get("trace"):
            self.P("accounting-mismatch", f"connector counts {len(c._acquired)} acquired, harness ledger {len(used)}: phases {self.phase} attempting {self.attempting}")

    def final(self):
        c = self.conn
        self.monitor()
        waiting = [i for i in range(self.n) if self.phase[i] == "connecting" and not self.attempting[i]]
        if not c._closed:
            for i in waiting:
                if c._available_connections(key(self.hosts[i])) > 0:
                    self.P("lost-wakeup", f"task {i} still waits for a slot at quiescence while capacity is available: phases {self.phase}")
                else:
                    self.P("stuck-waiter", f"task {i} waits forever though nothing is in use: phases {self.phase} acquired={len(c._acquired)}")
            if all(p in ("done", "failed", "cancelled") for p in self.phase):
                if c._acquired:
                    self.P("leak:acquired", f"{len(c._acquired)} entries left in _acquired after all requests finished")
                if any(v for v in c._acquired_per_host.values()):
                    self.P("leak:acquired-per-host", f"entries left in _acquired_per_host: {dict(c._acquired_per_host)!r}")
                if any(v for v in c._waiters.values()):
                    self.P("leak:waiters", "waiters left after all requests finished")
                # every connection the connector created is by now closed or idle in its pool (where close() finds it)
                pooled = {id(p.transport) for conns in c._conns.values() for (p, _t) in conns}
                for t in self.transports:
                    if not t.is_closing() and id(t) not in pooled:
                        self.P("leak:orphaned-connection", f"a connection is open but neither in use nor in the pool after all requests finished: phases {self.phase}")
        else:
            if self.close_task is not None and not self.close_task.done():
                self.P("close-hangs", "connector.close() did not return")
            for i in waiting:
                self.P("waiter-survives-close", f"task {i} still waiting after connector.close()")
            for t in self.transports:
                if not t.is_closing():
                    # a connection handed out *after* close is the caller's; those created before must be closed
                    owner = [i for i in range(self.n) if self.conns[i] is not None and self.conns[i].transport is t]
                    self.P("open-after-close", f"a transport created by the connector is still open after close() (held by task {owner})")
        excs = self.loop.collect_exceptions()
        for e in excs:
            self.P("loop-exception", f"loop exception handler: {e.get('message')} {e.get('exception')!r}")
        return (tuple(self.phase), tuple(self.result), len(self.transports), c._closed)

    def state(self):
        return None

    def close(self):
        for t in self.tasks:
            if not t.done():
                t.cancel()


def factory(case, loop):
    return Scen(case, loop)


def cases(quick):
    out = []
    limits = [(1, 0), (2, 0), (2, 1), (0, 1), (1, 1)]
    host_maps = {2: [[0, 0], [0, 1]], 3: [[0, 0, 0], [0, 0, 1], [0, 1, 0]], 4: [[0, 0, 0, 0], [0, 0, 1, 1], [0, 1, 0, 1]]}
    for n in (2, 3):
        for hosts in host_maps[n]:
            for lim, per in limits:
                for faults in (["cancel", "altmode"], ["close", "altmode"]):
                    for rev in ((False, True) if len(set(hosts)) > 1 else (False,)):
                        out.append({"tasks": n, "hosts": hosts, "limit": lim, "per_host": per, "faults": faults, "reverse": rev})
    # a case with a connect timeout (the clock is then an event too)
    out.append({"tasks": 3, "hosts": [0, 0, 0], "limit": 1, "per_host": 0, "faults": ["cancel"], "connect_timeout": 3})
    out.append({"tasks": 2, "hosts": [0, 0], "limit": 1, "per_host": 0, "faults": ["cancel", "close"], "force_close": True})
    out.append({"tasks": 3, "hosts": [0, 0, 0], "limit": 2, "per_host": 0, "faults": ["cancel", "altmode"], "modes": ["close", "release", "close"]})
    # tracing on: the trace points of connect() are await points
    for hosts, lim, per, late in (([0, 0], 1, 0, [1]), ([0, 0], 2, 0, [1]), ([0, 0, 0], 1, 0, [1, 2]), ([0, 0, 1], 2, 1, [2]), ([0, 0], 1, 0, [])):
        for faults in (["cancel", "altmode"], ["close"]):
            out.append({"tasks": len(hosts), "hosts": hosts, "limit": lim, "per_host": per, "faults": faults, "reverse": False, "late": late, "trace": True})
    # late starters: a request that arrives while others hold / have released connections
    # (idle pooled connections of another key, a free slot next to a queue of waiters)
    for hosts in ([0, 0, 0], [0, 0, 1], [0, 1, 0], [1, 0, 1]):
        for lim, per in [(1, 0), (2, 0), (1, 1)]:
            for late in ([2], [1, 2]):
                out.append({"tasks": 3, "hosts": hosts, "limit": lim, "per_host": per, "faults": ["cancel", "altmode"],
                            "reverse": False, "late": late})
    # two or more events in one loop iteration, then close(): a release that wakes a waiter, a newcomer that takes the slot first
    for hosts in ([0, 0, 0], [0, 0, 1]):
        for lim, per in [(1, 0), (0, 1), (2, 1)]:
            for late in ([2], [1, 2]):
                out.append({"tasks": 3, "hosts": hosts, "limit": lim, "per_host": per, "faults": ["close", "burst"], "reverse": False, "late": late})
    if not quick:
        for hosts in host_maps[4]:
            for lim, per in [(1, 0), (2, 1), (2, 0)]:
                out.append({"tasks": 4, "hosts": hosts, "limit": lim, "per_host": per, "faults": ["cancel", "close", "altmode"], "reverse": False})
    return out


def _job(job):
    case, bound, max_execs = job
    part = Part()

    def on_exec(ex):
        part.count("executions")
        part.count("transitions", ex.passes)
        part.outcome(ex.obs)
        part.state((case["tasks"], case["limit"], case["per_host"], ex.obs))
        for sig, msg in ex.problems:
            part.violation(sig, msg + f" | case={case} schedule={explorer.schedule_of(ex)}",
                           {"case": case, "prefix": explorer.prefix_of(ex)})
        if ex.capped:
            part.cap(f"pass horizon hit in {case}")

    st = explorer.explore(factory, case, bound, max_execs=max_execs, max_passes=400, on_exec=on_exec)
    part.count("choice_points", st["choice_points"])
    if st["truncated"]:
        part.cap(f"execution cap {max_execs} hit for {case} at bound {bound} (complete up to bound {st['completed_bound']}, {st['executions']} executions reported)")
    part.sample({"case": case, "bound": bound, "executions": st["executions"]})
    return part


def run(ctx):
    ctx.rule = (
        "executions = all schedules with <= d deviations of N tasks x H hosts x (limit, limit_per_host): attempt ok/fail, "
        "release/close, cancel of any task and connector.close() at any pass boundary, waiter-queue order as a parameter; "
        "oracle = harness ledger vs limits and connector sets at every pass, lost-wake-up/leak/close checks at quiescence; "
        "outcome distinct by (task end phases, errors, transports opened, closed flag)"
    )
    ctx.assumptions += [
        "real BaseConnector with _create_connection awaiting a harness future; real ResponseHandler on the in-memory wire",
        "random.shuffle of waiter queues replaced by identity / reversal (exhaustive for 2 keys)",
        "a cancelled holder closes its connection, as ClientSession does",
    ]
    bound = 2 if ctx.quick else 3
    cs = cases(ctx.quick)
    # thorough: bound 3 in full for the 2-task histories, bound 3 under an execution cap (reported) for 3 tasks,
    # bound 2 for 4 tasks; quick: bound 2 everywhere, complete
    jobs = [(c, bound if c["tasks"] < 4 else 2, 400000 if ctx.quick else 60000 if c["tasks"] <= 2 else 6000) for c in cs]
    for part in ctx.pmap(_job, jobs):
        ctx.merge(part)
    ctx.notes["deviation_bound"] = bound
    ctx.notes["cases"] = len(cs)


def replay(case):
    prefix = [(tuple(l), c) for l, c in case["prefix"]]
    ex = explorer.run_one(factory, case["case"], prefix, max_passes=400)
    return [{"sig": s, "msg": m, "case": case} for s, m in ex.problems]
