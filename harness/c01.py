"""C01 Request framing is unambiguous.

STREAM engine: grammar baselines x every mutation operator at every segment
(1, then 2 simultaneous), every single-byte substitution/insertion/deletion from
a fixed alphabet at every offset, and token-string BFS over five framing
sub-languages; every stream is read by the independent strict RFC 9112 reader
(refs.http1) and by the real HttpRequestParser, and the two readings are
compared.  MUST-reject streams are also sent to a real RequestHandler and must
be answered 4xx + close.  See DESIGN §3 C01.
"""
from __future__ import annotations

from mc import httpcorpus as hc
from mc import httpdrv
from mc.core import Part
from refs import http1

PROPERTY = "C01"

CONFIGS = {
    "default": {},
    "tight": {"max_line_size": 120, "max_field_size": 100, "max_headers": 24},
    "uneven": {"max_line_size": 64, "max_field_size": 200, "max_headers": 16},
}


def _expected_head(m: http1.RefMsg):
    return (
        m.method.decode("latin1").upper(),
        m.target.decode("utf-8", "surrogateescape"),
        m.version,
        tuple(m.headers),
    )


def _got_head(msg):
    head = msg[0]
    (method, path), version, raw = head[0], head[1], head[2]
    return (method, path, tuple(version), tuple(raw))


def compare(stream: bytes, cfgname: str = "default"):
    """Returns (list of (sig, msg), ref_result, outcome)."""
    cfg = CONFIGS[cfgname]
    ref = http1.read_requests(stream)
    # cut at the reference reader's message boundaries so that messages before a
    # malformed one are observable (a raising feed_data returns nothing)
    cuts = sorted({m.end for m in ref.messages if m.end is not None and 0 < m.end < len(stream)})
    out, drv = httpdrv.parse(stream, cuts=cuts, drain=False, **cfg)
    probs = []
    msgs = out["msgs"]
    err = out["error"]
    over_limit = False
    if cfg:
        over_limit = (ref.max_line > min(cfg["max_line_size"], cfg["max_field_size"])
                      or ref.max_fields + 2 > cfg["max_headers"])
    v = ref.verdict
    n_ref = len(ref.messages)

    def P(sig, text):
        if sig.startswith(("malformed-", "valid-rejected")):
            sig = f"{sig}[{ref.why}]"
        probs.append((f"C01:{sig}", f"{text} | ref={v}:{ref.why} stream={stream[:160]!r}"))

    # how many leading messages must match exactly
    if v in ("ok", "either-after"):
        must = n_ref
    elif v in ("reject-body", "either-body"):
        must = n_ref - 1       # last one: head only
    else:
        must = n_ref
    # 1. messages delivered must be the reference's, in order
    for i in range(min(must, len(msgs))):
        rm = ref.messages[i]
        if _got_head(msgs[i]) != _expected_head(rm):
            P("message-differs:head", f"message {i}: parser {_got_head(msgs[i])!r} != strict reading {_expected_head(rm)!r}")
            return probs, ref, out
        _h, body, splits, eof, exc = msgs[i]
        if rm.framing == "tunnel":
            if body != (ref.opaque or b""):
                P("message-differs:tunnel", f"CONNECT tunnel bytes {body!r} != {ref.opaque!r}")
            continue
        if body != rm.body:
            P("message-differs:body", f"message {i}: body {body[:60]!r} != strict reading {rm.body[:60]!r}")
            return probs, ref, out
        if rm.chunks is not None:
            exp, acc = [], 0
            for c in rm.chunks:
                acc += c
                exp.append(acc)
            if list(splits) != exp:
                P("message-differs:chunks", f"message {i}: chunk ends {list(splits)} != {exp}")
        if eof != rm.complete and exc is None:
            P("message-differs:end", f"message {i}: payload eof={eof} but strict reading complete={rm.complete}")
        if exc is not None:
            P("spurious-body-error", f"message {i}: payload failed with {exc} on a well-formed body")
    if v in ("reject-body", "either-body") and len(msgs) >= n_ref:
        rm = ref.messages[-1]
        if _got_head(msgs[n_ref - 1]) != _expected_head(rm):
            P("message-differs:head", f"message {n_ref-1}: parser {_got_head(msgs[n_ref-1])!r} != {_expected_head(rm)!r}")
        body = msgs[n_ref - 1][1]
        if not rm.body.startswith(body) and not body.startswith(rm.body):
            P("message-differs:body", f"message {n_ref-1}: body {body[:60]!r} vs strict prefix {rm.body[:60]!r}")

    # 2. verdict
    if v == "ok":
        if len(msgs) > n_ref and not ref.after_close:
            # (bytes after a message that closes the connection belong to no message;
            #  a parser may still lex them - whether the server acts on them is C05)
            P("extra-message", f"parser produced {len(msgs)} messages, strict reading {n_ref}")
        if len(msgs) < n_ref and err is None:
            P("missing-message", f"parser produced {len(msgs)} messages, strict reading {n_ref}, no error")
        if err is not None:
            if ref.after_close and len(msgs) == n_ref:
                pass  # bytes after a closing message: rejecting them is fine
            elif over_limit:
                pass
            elif ref.pending_head and _doomed(ref.pending_head):
                pass  # an unfinished head that can no longer become valid
            else:
                P("valid-rejected:" + err[1], f"parser raised {err} on a stream the strict reading accepts")
        if ref.opaque is not None and err is None and ref.messages and ref.messages[-1].framing != "tunnel":
            if not out["upgraded"] or out["tail"] != ref.opaque:
                P("upgrade-tail", f"after upgrade parser tail {out['tail'][:40]!r} upgraded={out['upgraded']} != {ref.opaque[:40]!r}")
    elif v == "reject":
        if len(msgs) > n_ref:
            P("malformed-accepted", f"parser delivered message {n_ref} which the strict reading rejects")
        elif err is None and not (len(msgs) == n_ref and _parser_pending(drv)):
            P("malformed-accepted", f"no error raised for a stream the strict reading rejects at message {n_ref}")
        elif err is None:
            P("malformed-pending", f"malformed message {n_ref} neither rejected nor delivered (parser waits for more)")
    elif v == "reject-body":
        if len(msgs) > n_ref:
            P("malformed-accepted", f"parser delivered a message after the malformed body of message {n_ref-1}")
        elif len(msgs) == n_ref:
            _h, body, splits, eof, exc = msgs[n_ref - 1]
            if err is None and exc is None:
                if eof:
                    P("malformed-accepted", f"body of message {n_ref-1} accepted as complete though malformed")
                elif not _payload_waiting(drv):
                    P("malformed-accepted", f"malformed body of message {n_ref-1}: no error on parser or payload")
    elif v in ("either", "either-body", "either-after"):
        pass
    if err is not None and err[0] != "http":
        # counted here only as a rejection; C10 owns 'never any other exception type'
        pass
    return probs, ref, out


def _doomed(pending: bytes) -> bool:
    """An unfinished head that no continuation can make valid."""
    r = http1.read_requests(pending + b"\r\n\r\n")
    return r.verdict in ("reject", "either")


def _parser_pending(drv) -> bool:
    p = drv.parser
    return bool(p._tail or p._lines)


def _payload_waiting(drv) -> bool:
    pp = drv.parser._payload_parser
    return pp is not None and bool(pp._chunk_tail or pp._trailer_lines or True)


# ---------------------------------------------------------------- server clause
def server_answers_4xx(stream: bytes):
    """MUST-reject stream through a real RequestHandler: 4xx written, transport closed."""
    from mc.server import serve_stream_app as serve_stream

    res = serve_stream(stream)
    probs = []
    why = http1.read_requests(stream).why
    if not res["responses"] or not (400 <= res["responses"][-1][0] < 500):
        probs.append((f"C01:server-no-4xx[{why}]", f"server wrote {res['responses']!r} for malformed stream {stream[:120]!r}"))
    elif not res["closed"]:
        probs.append(("C01:server-not-closed", f"server answered {res['responses'][-1][0]} but kept the connection open: {stream[:120]!r}"))
    return probs


# ---------------------------------------------------------------- jobs
def _check_stream(part: Part, stream: bytes, cfgname: str, label):
    probs, ref, out = compare(stream, cfgname)
    part.count("executions")
    part.count("transitions", 1 + len(out["msgs"]))
    part.count("verdict_" + ref.verdict)
    part.outcome((ref.verdict, ref.why, len(out["msgs"]), out["error"]))
    part.state((tuple(m[0] for m in out["msgs"]), out["error"], out["upgraded"]))
    for sig, msg in probs:
        part.violation(sig, msg, {"kind": "stream", "stream": stream, "config": cfgname, "label": repr(label)})
    return ref, out


def _job(job):
    kind = job[0]
    part = Part()
    if kind == "single":
        _k, bi, cfgname = job
        name, segs = hc.baselines()[bi]
        base = hc.render(hc.with_next(segs))
        _check_stream(part, base, cfgname, (name, "baseline"))
        for d, ms in hc.all_single(hc.with_next(segs)):
            s = hc.render(ms)
            ref, out = _check_stream(part, s, cfgname, (name, d))
            if len(part.samples) < 1 and ref.verdict == "reject":
                part.sample({"baseline": name, "mutation": repr(d), "stream": s, "ref": ref.why})
    elif kind == "bytes":
        _k, bi, cfgname = job
        name, segs = hc.baselines()[bi]
        base = hc.render(segs)
        cutoff = len(base)
        full = base + hc.NEXT
        for gen in (hc.byte_substitutions, hc.byte_insertions, hc.byte_deletions):
            for d, s in gen(full, cutoff):
                _check_stream(part, s, cfgname, (name, gen.__name__, d))
    elif kind == "pairs":
        _k, bi, cfgname, shard, nshards = job
        name, segs = hc.baselines()[bi]
        for k, (d, ms) in enumerate(hc.pair_mutations(hc.with_next(segs))):
            if k % nshards != shard:
                continue
            _check_stream(part, hc.render(ms), cfgname, (name, d))
    elif kind == "sublang":
        _k, lang, depth, shard, nshards = job
        for k, (tok, s) in enumerate(hc.sublang_streams(lang, depth)):
            if k % nshards != shard:
                continue
            ref, out = _check_stream(part, s, "default", (lang, tok))
    elif kind == "server":
        _k, bi = job
        name, segs = hc.baselines()[bi]
        seen = set()
        for d, ms in hc.all_single(hc.with_next(segs)):
            s = hc.render(ms)
            ref = http1.read_requests(s)
            if ref.verdict != "reject" or ref.messages:
                continue
            key = (ref.why, d[1] if len(d) > 1 else d[0])
            if key in seen:
                continue  # one representative per (rejection reason, segment kind) per baseline
            seen.add(key)
            part.count("server_runs")
            part.count("executions")
            for sig, msg in server_answers_4xx(s):
                part.violation(sig, msg, {"kind": "server", "stream": s})
    return part


def run(ctx):
    ctx.rule = (
        "streams = baselines x each mutation at each segment (+pairs in thorough), every byte substitution/insertion/"
        "deletion from a fixed alphabet at every offset, and all token strings up to depth d over 5 framing sub-languages; "
        "each is judged by refs.http1 and compared with HttpRequestParser; an outcome is distinct by "
        "(reference verdict+reason, messages delivered, error class); states = distinct (delivered heads, error, upgraded)"
    )
    ctx.assumptions += [
        "reference reader refs/http1.py encodes the strict RFC 9112 reading; EITHER where the RFC says MAY/SHOULD and the property names nothing",
        "streams are cut only at the reference's message boundaries here (segmentation independence is C03)",
        "pure-Python parser only (no llhttp in this tree)",
    ]
    nb = len(hc.baselines())
    jobs = []
    cfgs = ["default", "tight"] if ctx.quick else list(CONFIGS)
    for c in cfgs:
        jobs += [("single", i, c) for i in range(nb)]
    jobs += [("bytes", i, "default") for i in range(nb)]
    depth = {"cl-value": 5, "te-value": 4, "field-line": 4, "chunk-body": 5, "request-line": 5} if ctx.quick else \
            {"cl-value": 6, "te-value": 6, "field-line": 6, "chunk-body": 6, "request-line": 6}
    for lang, d in depth.items():
        n = 16 if ctx.quick else 64
        jobs += [("sublang", lang, d, s, n) for s in range(n)]
    jobs += [("server", i) for i in range(nb)]
    if not ctx.quick:
        for i in range(nb):
            jobs += [("pairs", i, "default", s, 8) for s in range(8)]
    for part in ctx.pmap(_job, jobs):
        ctx.merge(part)
    ctx.notes["sublang_depth"] = depth
    ctx.notes["configs"] = cfgs
    ctx.notes["baselines"] = nb


def replay(case):
    if case["kind"] == "server":
        probs = server_answers_4xx(case["stream"])
    else:
        probs, _r, _o = compare(case["stream"], case.get("config", "default"))
    return [{"sig": s, "msg": m, "case": case} for s, m in probs]
