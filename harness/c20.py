"""C20 App lifecycle: cleanup runs exactly for what started; shutdown drains.

Two sections (DESIGN §3 C20):

ctx       fault enumeration: every choice of which of n<=3 cleanup contexts (generator or
          class flavour; +<=2 on a sub-application) fails in setup or in teardown and which of
          the on_startup / on_shutdown / on_cleanup handlers raise, through `AppRunner`
          (setup() ... finally cleanup()) and through `web._run_app` (stopped by cancelling
          it) on the virtual loop.  Oracle: event-log model - a context's exit code runs
          exactly once iff its enter completed, each application's contexts exit in reverse
          order of entering.
shutdown  SCHED: 2-3 in-memory connections in different request phases; `runner.cleanup()`
          is an environment event that may start at any loop pass; virtual time.  Oracle:
          shutdown timeline (nothing new accepted, idle connections closed at once, running
          handlers may finish within the timeout and none survives twice the timeout, all
          transports closed when cleanup() returns, cleanup() returns).
"""
from __future__ import annotations

import asyncio
import contextlib
import itertools

from aiohttp import web

from mc import explorer
from mc.core import Part
from mc.vloop import VLoop
from mc.wire import SinkProtocol, pair
from refs import resp as respref

PROPERTY = "C20"
explorer.PROP = PROPERTY


class Boom(Exception):
    pass


# the site start seam: without aiofastnet, web_runner falls back to loop.create_server - the virtual loop's
# socket-less fake - so that _run_app really reaches its serving state (and is then stopped by cancellation)
import aiohttp.web_runner as _web_runner  # noqa: E402
_web_runner.aiofastnet = None

# ============================================================ section ctx
def make_ctx(log, name, flavour, beh):
    if flavour == "gen":
        async def ctx(app):
            log.append(("enter", name))
            if beh == "fail_setup":
                raise Boom(f"setup {name}")
            log.append(("entered", name))
            yield
            log.append(("exit", name))
            if beh == "fail_teardown":
                raise Boom(f"teardown {name}")
            if beh == "cancelled_teardown":
                raise asyncio.CancelledError()      # what `task.cancel(); await task` on a background task raises
        return ctx

    class Ctx(contextlib.AbstractAsyncContextManager):
        async def __aenter__(self):
            log.append(("enter", name))
            if beh == "fail_setup":
                raise Boom(f"setup {name}")
            log.append(("entered", name))

        async def __aexit__(self, *a):
            log.append(("exit", name))
            if beh == "fail_teardown":
                raise Boom(f"teardown {name}")
            if beh == "cancelled_teardown":
                raise asyncio.CancelledError()

    return lambda app: Ctx()


def make_handler(log, name, beh):
    async def h(app):
        log.append(("signal", name))
        if beh == "raise":
            raise Boom(name)
    return h


def build_tree(node, log, first):
    """node = (letter, [(flavour, behaviour)...], [child nodes]); sub-applications are added before (first) or
    after the node's own contexts."""
    letter, ctxs, children = node
    app = web.Application()

    def add_children():
        for ch in children:
            app.add_subapp("/" + ch[0].lower(), build_tree(ch, log, first))

    if first:
        add_children()
    for k, (fl, beh) in enumerate(ctxs):
        app.cleanup_ctx.append(make_ctx(log, f"{letter}{k}", fl, beh))
    if not first:
        add_children()
    return app


def tree_names(node):
    letter, ctxs, children = node
    out = [f"{letter}{k}" for k in range(len(ctxs))]
    for ch in children:
        out += tree_names(ch)
    return out


def build_app(cfg, log):
    if cfg.get("tree") is not None:
        app = build_tree(cfg["tree"], log, cfg["sub_first"])
        for sig in ("on_startup", "on_shutdown", "on_cleanup"):
            if cfg[sig] is not None:
                getattr(app, sig).append(make_handler(log, sig, cfg[sig]))
        return app
    app = web.Application()
    sub = None
    if cfg["sub"] is not None:
        sub = web.Application()
        for k, (fl, beh) in enumerate(cfg["sub"]):
            sub.cleanup_ctx.append(make_ctx(log, f"S{k}", fl, beh))

    def add_sub():
        if sub is not None:
            app.add_subapp("/sub", sub)

    if cfg["sub_first"]:
        add_sub()
    for k, (fl, beh) in enumerate(cfg["ctxs"]):
        app.cleanup_ctx.append(make_ctx(log, f"P{k}", fl, beh))
    for sig in ("on_startup", "on_shutdown", "on_cleanup"):
        if cfg[sig] is not None:
            getattr(app, sig).append(make_handler(log, sig, cfg[sig]))
    if not cfg["sub_first"]:
        add_sub()
    return app


def run_ctx_case(cfg):
    loop = VLoop().hold()
    log = []
    problems = []
    try:
        app = build_app(cfg, log)

        async def via_runner():
            runner = web.AppRunner(app)
            try:
                await runner.setup()
                log.append(("running",))
            finally:
                await runner.cleanup()

        if cfg["entry"] == "runner":
            t = loop.create_task(via_runner())
            loop.run_until_quiescent(max_passes=2000, horizon=100.0)
        else:
            from aiohttp import web as webmod
            t = loop.create_task(webmod._run_app(app, host="127.0.0.1", port=8080, print=None))
            loop.drain(2000)
            if not t.done():
                log.append(("running",))
                t.cancel()
                loop.run_until_quiescent(max_passes=2000, horizon=100.0)
        if not t.done():
            problems.append(("C20:ctx:entry-point-hangs", f"{cfg['entry']} did not finish"))
            t.cancel()
            loop.drain(100)
        else:
            with contextlib.suppress(BaseException):
                t.result()
        loop.collect_exceptions()
    finally:
        loop.finish()
    return log, problems


def judge_ctx(cfg, log):
    """Event-log model: exit exactly once iff entered; per application reverse order."""
    out = []
    if cfg.get("tree") is not None:
        names = tree_names(cfg["tree"])
    else:
        names = [f"P{k}" for k in range(len(cfg["ctxs"]))] + [f"S{k}" for k in range(len(cfg["sub"] or ()))]
    entered = [n for (e, *r) in log if e == "entered" for n in r]
    exits = [n for (e, *r) in log if e == "exit" for n in r]
    ep = cfg["entry"]
    for n in names:
        k = exits.count(n)
        if n in entered and k == 0:
            out.append((f"C20:ctx:cleanup-missing:{ep}:{'app' if n[0] == 'P' else 'sub' if n[0] in 'ST' else 'nested-sub'}",
                        f"context {n} entered but its cleanup code never ran; log {log}"))
        elif n in entered and k > 1:
            out.append((f"C20:ctx:cleanup-twice:{ep}", f"context {n} exited {k} times; log {log}"))
        elif n not in entered and k:
            out.append((f"C20:ctx:cleanup-without-startup:{ep}", f"context {n} never finished entering but its exit ran; log {log}"))
    for prefix in sorted({n[0] for n in names}):
        ent = [n for n in entered if n[0] == prefix]
        ex = [n for n in exits if n[0] == prefix]
        seen = []
        for n in ex:
            if n not in seen:
                seen.append(n)
        want = [n for n in reversed(ent) if n in seen]
        if seen != want:
            out.append((f"C20:ctx:cleanup-order:{ep}", f"contexts entered {ent} but exited {seen}; log {log}"))
    return out


def ctx_configs(quick):
    FL = ("gen", "cls")
    BEH = ("ok", "fail_setup", "fail_teardown")
    one = list(itertools.product(FL, BEH))
    for entry in ("runner", "run_app"):
        for n in (1, 2, 3):
            for ctxs in itertools.product(one, repeat=n):
                if n == 3 and quick and sum(1 for c in ctxs if c[0] == "cls") not in (0, 3):
                    continue
                yield {"entry": entry, "ctxs": list(ctxs), "sub": None, "sub_first": False,
                       "on_startup": None, "on_shutdown": None, "on_cleanup": None}
        # a teardown that ends in CancelledError (it awaited a background task it had cancelled)
        for n in (2, 3):
            for pos in range(n):
                for fl in FL:
                    ctxs = [("gen", "ok")] * n
                    ctxs[pos] = (fl, "cancelled_teardown")
                    yield {"entry": entry, "ctxs": list(ctxs), "sub": None, "sub_first": False,
                           "on_startup": None, "on_shutdown": None, "on_cleanup": None}
        # signal handlers and a sub-application around a 2-context app
        for ctxs in itertools.product([("gen", b) for b in BEH], repeat=2):
            for su, sd, sc in itertools.product((None, "ok", "raise"), repeat=3):
                if (su, sd, sc) == (None, None, None):
                    continue
                yield {"entry": entry, "ctxs": list(ctxs), "sub": None, "sub_first": False,
                       "on_startup": su, "on_shutdown": sd, "on_cleanup": sc}
        for ctxs in itertools.product([("gen", b) for b in BEH], repeat=2):
            for subn in (1, 2):
                for sub in itertools.product([("gen", b) for b in BEH] + ([("cls", "fail_setup")] if not quick else []), repeat=subn):
                    for sub_first in (False, True):
                        for su, sc in ((None, None), ("raise", None), (None, "raise")):
                            yield {"entry": entry, "ctxs": list(ctxs), "sub": list(sub), "sub_first": sub_first,
                                   "on_startup": su, "on_shutdown": None, "on_cleanup": sc}


def tree_configs(quick):
    """Sub-applications nested two and three levels deep, and a nested one beside a flat sibling."""
    BEH = ("ok", "fail_setup", "fail_teardown")

    def shapes(b):
        g = lambda i: [("gen", b[i])]
        yield ("P", g(0), [("S", g(1), [("G", g(2), [])])]), 3
        yield ("P", g(0), [("S", g(1), [("G", g(2), [])]), ("T", g(3), [])]), 4
        yield ("P", g(0), [("S", g(1), [("G", g(2), [("H", g(3), [])])])]), 4
        yield ("P", g(0), [("S", [], [("G", g(2), [])]), ("T", g(3), [])]), 4
    for entry in ("runner", "run_app"):
        for b in itertools.product(BEH, repeat=4):
            seen = set()
            for tree, used in shapes(b):
                key = (repr(tree))
                if key in seen:
                    continue
                seen.add(key)
                if used == 3 and b[3] != "ok":
                    continue
                for sub_first in (False, True):
                    for su, sc in ((None, None), ("raise", None)) + (((None, "raise"),) if not quick else ()):
                        yield {"entry": entry, "tree": tree, "ctxs": [], "sub": None, "sub_first": sub_first,
                               "on_startup": su, "on_shutdown": None, "on_cleanup": sc}


def _job_ctx(cfgs):
    part = Part()
    for cfg in cfgs:
        log, problems = run_ctx_case(cfg)
        part.count("executions")
        part.count("transitions", len(log))
        part.state(tuple(log))
        part.outcome((cfg["entry"], tuple(e for e in log if e[0] in ("entered", "exit"))))
        for sig, msg in problems + judge_ctx(cfg, log):
            part.violation(sig, msg + f" | config {cfg}", {"kind": "ctx", "cfg": cfg})
    if cfgs:
        part.sample({"section": "ctx", "config": cfgs[len(cfgs) // 2]})
    return part


# ============================================================ section shutdown
TIMEOUT = 4.0


def req(i, kind="get"):
    if kind == "get":
        return b"GET /%d HTTP/1.1\r\nHost: a\r\n\r\n" % i
    if kind == "post":
        return b"POST /%d HTTP/1.1\r\nHost: a\r\nContent-Length: 4\r\n\r\nbody" % i
    raise KeyError(kind)


class ShutScen:
    horizon = 60.0
    clock_when_ready = False     # deadlines are judged in virtual time: the process itself is never stalled

    def __init__(self, case, loop):
        self.case = case
        self.loop = loop
        self.problems = []
        self.parked = {}        # (conn, n) -> future
        self.reading = set()
        self.all_sent_at = {}
        self.entered = []       # (tick, conn, path) of every handler entry
        self.finished = []      # (conn, path, how)
        self.tick = 0
        app = web.Application()
        app.router.add_route("*", "/{p:.*}", self.handler)
        self.hook_gate = None
        if case.get("slow_on_shutdown"):
            async def on_shutdown(app_):
                self.hook_gate = self.loop.create_future()
                await self.hook_gate          # an on_shutdown handler that takes a while

            app.on_shutdown.append(on_shutdown)
        self.runner = web.AppRunner(app, shutdown_timeout=TIMEOUT, keepalive_timeout=75)
        t = loop.create_task(self.runner.setup())
        loop.drain(200)
        t.result()
        self.conns = []
        for ci, script in enumerate(case["conns"]):
            proto = self.runner.server()
            client = SinkProtocol()
            st, ct = pair(loop, proto, client)
            client.connection_made(ct)
            proto.connection_made(st)
            self.conns.append({"proto": proto, "client": client, "st": st, "ct": ct, "script": list(script), "sent": 0, "beh": None})
        self.cleanup_task = None
        self.t_shutdown = None       # when Server.pre_shutdown() ran: the shutdown instant
        self.tick_shutdown = None
        self.t_called = None
        self.tick_called = None
        self.t_returned = None
        self.idle_since = {}
        srv = self.runner.server
        real_pre = srv.pre_shutdown

        def pre_shutdown():
            self.t_shutdown = self.loop.time()
            self.tick_shutdown = self.tick
            return real_pre()

        srv.pre_shutdown = pre_shutdown
        self.late = set()       # (conn, path) of requests whose first byte was delivered after the shutdown began

    # ---- application
    async def handler(self, request):
        ci = int(request.headers.get("X-Conn", request.path.strip("/").split("-")[0] or 0)) if False else self._conn_of(request)
        path = request.path
        self.entered.append((self.tick, ci, path))
        beh = path.rsplit(".", 1)[-1] if "." in path else "fast"
        try:
            if beh == "park" or beh == "forever":
                fut = self.loop.create_future()
                self.parked[(ci, path)] = (fut, beh)
                await fut
            elif beh == "stream":
                resp = web.StreamResponse()
                await resp.prepare(request)
                await resp.write(b"part1")
                fut = self.loop.create_future()
                self.parked[(ci, path)] = (fut, "park")
                await fut
                await resp.write(b"part2")
                await resp.write_eof()
                self.finished.append((ci, path, "returned"))
                return resp
            elif beh == "read":
                # the handler needs the whole request body
                self.reading.add((ci, path))
                body = await request.read()
                self.finished.append((ci, path, "returned"))
                return web.Response(text=f"read {len(body)}")
            elif beh == "shielded":
                fut = self.loop.create_future()
                self.parked[(ci, path)] = (fut, "forever")
                with contextlib.suppress(asyncio.CancelledError):
                    await fut
        except asyncio.CancelledError:
            self.finished.append((ci, path, "cancelled"))
            raise
        self.finished.append((ci, path, "returned"))
        return web.Response(text="done " + path)

    def _conn_of(self, request):
        for ci, c in enumerate(self.conns):
            if request.protocol is c["proto"]:
                return ci
        return -1

    # ---- environment
    def _send(self, ci):
        c = self.conns[ci]
        data = c["script"].pop(0)
        # cleanup() first yields once so that requests that arrived before it start being handled, then closes
        # idle connections: anything reaching the server two passes after the call or later is a *new* request
        if self.tick_called is not None and self.tick >= self.tick_called + 2:
            path = data.split(b" ")[1].decode() if data.startswith((b"GET", b"POST")) else None
            if path:
                self.late.add((ci, path))
        c["ct"].write(data)
        c["st"].deliver()
        if not c["script"]:
            self.all_sent_at[ci] = self.loop.time()

    def menu(self):
        m = []
        for ci, c in enumerate(self.conns):
            if c["script"] and not c["ct"].is_closing() and not c["st"].is_closing():
                m.append((f"c{ci}.send", lambda ci=ci: self._send(ci)))
        for (ci, path), (fut, beh) in sorted(self.parked.items()):
            if beh == "park" and not fut.done():
                m.append((f"finish.c{ci}{path}", lambda f=fut: f.done() or f.set_result(None)))
        if self.cleanup_task is None:
            m.append(("shutdown", self._shutdown))
        if self.hook_gate is not None and not self.hook_gate.done():
            m.append(("onshutdown.done", lambda: self.hook_gate.done() or self.hook_gate.set_result(None)))
        return m

    def faults(self):
        f = []
        if "drop" in self.case.get("faults", ()):
            for ci, c in enumerate(self.conns):
                if not c["st"]._lost_called and not c["st"].is_closing():
                    f.append((f"c{ci}.drop", lambda c=c: c["st"].drop()))
        return f

    def _shutdown(self):
        if self.cleanup_task is None:
            self.t_called = self.loop.time()
            self.tick_called = self.tick
            self.cleanup_task = self.loop.create_task(self.runner.cleanup())
            self.cleanup_task.add_done_callback(lambda t: setattr(self, "t_returned", self.loop.time()))

    def P(self, sig, msg):
        self.problems.append((f"C20:shutdown:{sig}", msg))

    def monitor(self):
        self.tick += 1
        for c in self.conns:
            if c["ct"].deliverable():
                c["ct"].deliver()
            if c["ct"].eof_deliverable():
                c["ct"].deliver_eof()
        if self.t_shutdown is None:
            return
        now = self.loop.time()
        # nothing may still be handled after twice the timeout
        if now > self.t_shutdown + 2 * TIMEOUT + 1.0:
            for c in self.conns:
                th = c["proto"]._task_handler
                if th is not None and not th.done() and getattr(c["proto"], "_request_in_progress", False):
                    self.P("handler-survives-2x-timeout", f"a handler is still running {now - self.t_shutdown:g}s after shutdown began (timeout {TIMEOUT})")
        # idle connections are closed at once: idle and open for 6 consecutive passes is too long
        for ci, c in enumerate(self.conns):
            idle = not c["proto"]._request_in_progress and not c["proto"]._messages and not c["st"].is_closing()
            if not idle:
                self.idle_since.pop(ci, None)
                continue
            since = self.idle_since.setdefault(ci, (self.tick, now))
            if self.tick - since[0] >= 6 and not c.get("idle_flag"):
                c["idle_flag"] = True
                self.P("idle-connection-not-closed", f"connection {ci} has been idle and open for {self.tick - since[0]} passes after the shutdown instant (t={since[1]:g}..{now:g})")

    def quiescent(self):
        pass

    def final(self):
        self.monitor()
        if self.cleanup_task is None:
            return ("no-shutdown",)
        if self.t_shutdown is None:
            self.t_shutdown = self.t_called
        if not self.cleanup_task.done():
            self.P("cleanup-hangs", f"runner.cleanup() has not returned at t={self.loop.time():g} (shutdown began at {self.t_shutdown:g})")
        else:
            exc = self.cleanup_task.exception() if not self.cleanup_task.cancelled() else None
            if exc is not None:
                self.P(f"cleanup-raises:{type(exc).__name__}", repr(exc))
            if self.t_returned is not None and self.t_returned > self.t_shutdown + 2 * TIMEOUT + 1.0:
                self.P("cleanup-late", f"cleanup() returned {self.t_returned - self.t_shutdown:g}s after it was called (timeout {TIMEOUT})")
            for ci, c in enumerate(self.conns):
                if not c["st"].is_closing():
                    self.P("connection-open-after-cleanup", f"connection {ci} is still open after cleanup() returned")
        # no new request accepted after the shutdown began
        for (tick, ci, path) in self.entered:
            if (ci, path) in self.late:
                self.P("request-accepted-after-shutdown", f"request {path} on connection {ci} reached the server after runner.cleanup() had started (and its first pass had run) and was handled")
        # a handler that finished within the timeout was not cancelled and its response went out complete
        for ci, c in enumerate(self.conns):
            fr = respref.frame(bytes(c["client"].received), c.get("methods") or ["GET"] * 10, eof=True)
            if fr.malformed and not c["st"]._lost_called and "drop" not in self.case.get("faults", ()):
                self.P("truncated-response", f"connection {ci}: server output is not a sequence of complete responses: {fr.malformed}")
        for (ci, path, how) in self.finished:
            if how == "cancelled":
                key = (ci, path)
                ent = next((t for (t, cc, pp) in self.entered if (cc, pp) == key), None)
                beh = self.parked.get(key, (None, "fast"))[1]
                released = key in self.parked and self.parked[key][0].done() and not self.parked[key][0].cancelled()
                if key in self.reading and ci in self.all_sent_at and self.t_called is not None and self.all_sent_at[ci] < self.t_called + TIMEOUT - 1e-9 \
                        and "drop" not in self.case.get("faults", ()):
                    self.P("uploading-handler-cancelled", f"handler {path} on connection {ci} was waiting for the rest of its request body, which the client sent "
                           f"{self.all_sent_at[ci] - self.t_called:g}s after the shutdown began (timeout {TIMEOUT:g}s), but it never got it and was cancelled")
                if released and "drop" not in self.case.get("faults", ()):
                    self.P("finishing-handler-cancelled", f"handler {path} on connection {ci} was released by the application in time but got cancelled")
        alive = [(ci, p) for (ci, p), (f, b) in self.parked.items() if not f.done()]
        if self.cleanup_task.done():
            for (ci, p) in alive:
                self.P("handler-survives-cleanup:" + ("connection-lost" if self.conns[ci]["st"]._lost_called else "connection-open"), f"the handler of {p} on connection {ci} is still running after runner.cleanup() returned "
                       f"(connection lost: {self.conns[ci]['st']._lost_called})")
        for e in self.loop.collect_exceptions():
            msg = str(e.get("message"))
            self.P("loop-exception", f"{msg} {e.get('exception')!r}")
        return (tuple(sorted(self.finished)), tuple(sorted(alive)), self.cleanup_task.done(),
                None if self.t_returned is None else round(self.t_returned - self.t_shutdown, 1),
                tuple(len(c["client"].received) > 0 for c in self.conns))

    def state(self):
        return None

    def close(self):
        for (f, _b) in self.parked.values():
            if not f.done():
                f.cancel()
        if self.cleanup_task is not None and not self.cleanup_task.done():
            self.cleanup_task.cancel()


def shut_factory(case, loop):
    return ShutScen(case, loop)


def shut_cases(quick):
    out = []
    add = lambda name, conns, faults=(): out.append({"name": name, "conns": conns, "faults": list(faults)})
    add("idle+running", [[req(0), req(1)], [b"GET /0.park HTTP/1.1\r\nHost: a\r\n\r\n", req(2)]])
    add("idle+forever", [[req(0), req(1)], [b"GET /0.forever HTTP/1.1\r\nHost: a\r\n\r\n"]])
    add("partial-head+running", [[b"GET /0 HTTP/1.1\r\nHo", b"st: a\r\n\r\n"], [b"GET /0.park HTTP/1.1\r\nHost: a\r\n\r\n"]])
    add("pipelined-behind-running", [[b"GET /0.park HTTP/1.1\r\nHost: a\r\n\r\n" + req(1), req(2)]])
    add("stream+idle", [[b"GET /0.stream HTTP/1.1\r\nHost: a\r\n\r\n"], [req(0)]])
    add("shielded", [[b"GET /0.shielded HTTP/1.1\r\nHost: a\r\n\r\n"], [req(0)]])
    add("post-body-pending", [[b"POST /0 HTTP/1.1\r\nHost: a\r\nContent-Length: 4\r\n\r\nbo", b"dy"], [req(0)]])
    add("post-read-body-pending", [[b"POST /0.read HTTP/1.1\r\nHost: a\r\nContent-Length: 4\r\n\r\nbo", b"dy"], [req(0)]])
    add("three", [[req(0)], [b"GET /0.park HTTP/1.1\r\nHost: a\r\n\r\n"], [b"GET /0.forever HTTP/1.1\r\nHost: a\r\n\r\n"]])
    add("running+drop", [[b"GET /0.forever HTTP/1.1\r\nHost: a\r\n\r\n"], [b"GET /0.park HTTP/1.1\r\nHost: a\r\n\r\n"]], ["drop"])
    add("untouched", [[], [req(0)]])
    for c in list(out):
        if c["name"] in ("idle+running", "pipelined-behind-running", "untouched", "three"):
            out.append(dict(c, name=c["name"] + "+slow-hook", slow_on_shutdown=True))
    return out


def _job_shut(job):
    case, bound = job
    part = Part()

    def on_exec(ex):
        part.count("executions")
        part.count("transitions", ex.passes)
        part.outcome((case["name"], ex.obs))
        part.state((case["name"], ex.obs))
        for sig, msg in ex.problems:
            part.violation(sig, msg[:500] + f" | case={case['name']} schedule={explorer.schedule_of(ex)}",
                           {"kind": "shutdown", "case": case, "prefix": explorer.prefix_of(ex)})
        if ex.capped:
            part.cap(f"pass horizon hit in {case['name']}")

    st = explorer.explore(shut_factory, case, bound, max_execs=60000, max_passes=1500, on_exec=on_exec)
    if st["truncated"]:
        part.cap(f"execution cap hit for {case['name']} (complete up to bound {st['completed_bound']}, {st['executions']} executions reported)")
    part.sample({"section": "shutdown", "case": case["name"], "bound": bound, "executions": st["executions"]})
    return part


# ============================================================ driver
def _dispatch(job):
    if job[0] == "ctx":
        return _job_ctx(job[1])
    return _job_shut(job[1:])


def run(ctx):
    ctx.rule = (
        "ctx: every assignment of {ok, fails in setup, fails in teardown} x {generator, class} to n<=3 cleanup contexts, of ok/raise to the "
        "on_startup/on_shutdown/on_cleanup handlers and of contexts to one sub-application (registered before or after the parent's), through AppRunner "
        "and through web._run_app; shutdown: all schedules with <= d deviations of 2-3 connections in scripted request phases where runner.cleanup() may "
        "begin at any pass; states = distinct event logs / observations"
    )
    ctx.assumptions += [
        "virtual loop; aiohttp.web_runner.aiofastnet is rebound to None so that sites start through loop.create_server, a socket-less fake: _run_app reaches its serving state and is stopped by cancelling its task",
        "reverse order is judged per application (parent's and sub-application's contexts separately)",
        f"shutdown_timeout={TIMEOUT}; 'at once' = within 4 loop passes; grace of 1 s of virtual time on the 2x-timeout bound (timeouts are ceiled)",
    ]
    cfgs = list(ctx_configs(ctx.quick)) + list(tree_configs(ctx.quick))
    jobs = [("ctx", cfgs[i:i + 60]) for i in range(0, len(cfgs), 60)]
    bound = 2 if ctx.quick else 3
    jobs += [("shutdown", c, bound) for c in shut_cases(ctx.quick)]
    for part in ctx.pmap(_dispatch, jobs):
        ctx.merge(part)
    ctx.notes["ctx_configs"] = len(cfgs)
    ctx.notes["deviation_bound_shutdown"] = bound


def replay(case):
    if case["kind"] == "ctx":
        cfg = case["cfg"]
        cfg = dict(cfg, ctxs=[tuple(c) for c in cfg["ctxs"]], sub=None if cfg["sub"] is None else [tuple(c) for c in cfg["sub"]])
        log, problems = run_ctx_case(cfg)
        return [{"sig": s, "msg": m, "case": case} for s, m in problems + judge_ctx(cfg, log)]
    prefix = [(tuple(l), c) for l, c in case["prefix"]]
    ex = explorer.run_one(shut_factory, case["case"], prefix, max_passes=1500)
    return [{"sig": s, "msg": m, "case": case} for s, m in ex.problems]
