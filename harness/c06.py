"""C06 Client connection reuse never mixes responses.

SCHED engine: a real ClientSession + BaseConnector pool + ResponseHandler on the
in-memory wire talk to scripted peers.  Histories of 2-3 requests; per exchange
the peer behaves according to a misbehaviour alphabet (surplus bytes in the same
or a later segment, unsolicited response while the connection idles, partial
stray bytes, garbage, truncation, close, 1xx, close-delimited...).  The order of
{response delivery, release, stray-byte arrival, re-acquisition} is the schedule;
all schedules with <= d deviations are enumerated.  DESIGN §3 C06.
"""
from __future__ import annotations

import asyncio

import aiohttp
from aiohttp import ClientTimeout

from mc import explorer
from mc.client import ScriptPeer, WireConnector
from mc.core import Part

PROPERTY = "C06"
explorer.PROP = PROPERTY

KEYS = {
    0: ("http://a.test/", {}),
    1: ("http://b.test/", {}),
    2: ("http://a.test:8080/", {}),
    3: ("https://a.test/", {}),
    4: ("http://a.test/", {"proxy": "http://proxy.test:3128"}),
    5: ("https://a.test/", {"ssl": False}),
    6: ("https://a.test/", {"server_hostname": "other.test"}),
}


def response(stamp: str, kind="cl", status=200, extra_headers=b""):
    body = b"body-" + stamp.encode()
    head = b"HTTP/1.1 %d OK\r\nX-Stamp: %s\r\n" % (status, stamp.encode()) + extra_headers
    if kind == "cl":
        return head + b"Content-Length: %d\r\n\r\n" % len(body) + body
    if kind == "chunked":
        return head + b"Transfer-Encoding: chunked\r\n\r\n%x\r\n%s\r\n0\r\n\r\n" % (len(body), body)
    if kind == "eof":
        return head + b"\r\n" + body
    if kind == "close":
        return head + b"Connection: close\r\nContent-Length: %d\r\n\r\n" % len(body) + body
    if kind == "trunc":
        return head + b"Content-Length: %d\r\n\r\n" % (len(body) + 6) + body
    if kind == "204":
        return b"HTTP/1.1 204 No Content\r\nX-Stamp: %s\r\n\r\n" % stamp.encode()
    raise KeyError(kind)


# behaviour -> (bytes written when responding, extras written later, close after?)
def plan(beh, j):
    R = f"R{j}"
    S = f"STALE{j}"
    if beh == "exact":
        return response(R), [], False
    if beh == "chunked":
        return response(R, "chunked"), [], False
    if beh == "surplus-same":
        return response(R) + response(S), [], False
    if beh == "surplus-same-chunked":
        return response(R, "chunked") + response(S), [], False
    if beh == "surplus-later":
        return response(R), [response(S)], False
    if beh == "partial-stray-later":
        return response(R), [response(S)[:25]], False
    if beh == "garbage-later":
        return response(R), [b"\x00\x01garbage\r\n"], False
    if beh == "crlf-later":
        return response(R), [b"\r\n"], False
    if beh == "two-stale-later":
        return response(R), [response(S) + response(S + "b")], False
    if beh == "1xx":
        return b"HTTP/1.1 100 Continue\r\n\r\n" + response(R), [], False
    if beh == "1xx-late":
        return response(R), [b"HTTP/1.1 100 Continue\r\n\r\n"], False
    if beh == "eof":
        return response(R, "eof"), [], True
    if beh == "conn-close":
        return response(R, "close"), [], False
    if beh == "conn-close-then-stale":
        return response(R, "close"), [response(S)], False
    if beh == "trunc":
        return response(R, "trunc"), [], True
    if beh == "close-after":
        return response(R), [], True
    if beh == "204":
        return response(R, "204"), [], False
    if beh == "204-surplus":
        return response(R, "204") + b"stray-body", [], False
    if beh == "silent-close":
        return b"", [], True
    if beh == "surplus-same-close":
        # the surplus response itself says "Connection: close"
        return response(R) + response(S, "close"), [], False
    if beh == "surplus-partial-same":
        # the start of a further response head glued to the end of the answer
        return response(R) + response(S)[:25], [], False
    if beh == "bare101-later":
        # a 101 without any upgrade: final for the caller; the peer then says more while the connection idles
        return b"HTTP/1.1 101 Switching Protocols\r\nX-Stamp: %s\r\n\r\n" % R.encode(), [response(S)], False
    raise KeyError(beh)


class Scen:
    horizon = 50.0

    def __init__(self, case, loop):
        self.case = case
        self.loop = loop
        self.problems = []
        self.tick = 0
        self.reqs = case["reqs"]
        self.behs = case["peer"]
        self.faultset = set(case.get("faults", ()))
        self.connector = WireConnector(self, limit=case.get("limit", 10), keepalive_timeout=30)
        self.session = aiohttp.ClientSession(connector=self.connector, timeout=ClientTimeout(total=None),
                                             cookie_jar=aiohttp.DummyCookieJar())
        self.acq = {}            # j -> (tick, conn index)
        self.results = {}        # j -> outcome
        self.extras = {}         # conn index -> [bytes...] still to be sent by the peer
        self.closes = {}         # conn index -> peer will close (after its data)
        self.deliv = {}          # conn index -> [(tick, start offset, end offset)] of bytes given to the client
        self.sent_map = {}       # conn index -> [(start, end, stamp, is_stale)] layout of what the peer wrote
        self.taint = {}          # conn index -> tick at which the client protocol saw stray bytes / peer eof
        self.think = None
        self.gates = []
        ntasks = case.get("concurrent", 1)
        if ntasks == 1:
            self.tasks = [loop.create_task(self.app(range(len(self.reqs)), True))]
        else:
            self.tasks = [loop.create_task(self.app([j], False)) for j in range(len(self.reqs))]

    # ---- application ----------------------------------------------------------
    async def app(self, js, think):
        for n, j in enumerate(js):
            if n and think:
                self.think = self.loop.create_future()
                await self.think
                self.think = None
            r = self.reqs[j]
            url, kw = KEYS[r.get("key", 0)]
            try:
                extra = {"expect100": True} if r.get("expect100") else {}
                async with self.session.request(r.get("method", "GET"), url + f"r{j}k{r.get('key', 0)}", data=r.get("data"), **extra, **kw) as resp:
                    mode = r.get("read", "read")
                    if mode == "read":
                        body = await resp.read()
                    elif mode == "partial":
                        body = await resp.content.read(3)
                    elif mode == "release":
                        body = None
                        resp.release()
                    else:
                        body = None
                        resp.close()
                    self.results[j] = ("ok", resp.status, resp.headers.get("X-Stamp"), body, mode)
            except asyncio.CancelledError:
                self.results[j] = ("cancelled",)
                raise
            except Exception as e:  # noqa: BLE001
                self.results[j] = ("err", type(e).__name__)

    # ---- connector callbacks ----------------------------------------------------
    def connect_gate(self, req):
        return None

    def new_peer(self, req, index):
        return ScriptPeer(self, index, req.connection_key)

    def on_acquire(self, proto, req):
        j = int(req.url.path.split("r")[1].split("k")[0])
        c = self.connector.index_of(proto)
        self.acq.setdefault(j, []).append((self.tick, c))
        if c is not None:
            # everything the client wrote so far reaches the peer before the new exchange starts
            ct, st, peer = self.connector.created[c]
            if st.deliverable():
                st.deliver()
            pending = [m for m in peer.requests() if not m.complete and m.framing != "none"]
            if pending and self.acq.get(j) and len([a for a in self.acq[j] if a[1] == c]) >= 1 and len(peer.requests()) >= 1 and peer.answered >= 1:
                self.P("reused-with-unsent-request-body",
                       f"request {j} was handed connection {c} on which an earlier request declared a body that was never sent (peer answered it early)")
        t = self.taint.get(c)
        if t is not None and t < self.tick:
            self.P(f"tainted-connection-reused:{self.taint_why[c]}",
                   f"request {j} was handed connection {c} at tick {self.tick}, which {self.taint_why[c]} at tick {t}")

    taint_why: dict = {}

    def _taint(self, c, why):
        if c not in self.taint:
            self.taint[c] = self.tick
            self.taint_why = dict(self.taint_why)
            self.taint_why[c] = why

    # ---- environment --------------------------------------------------------------
    def _respond(self, c):
        ct, st, peer = self.connector.created[c]
        reqs = peer.requests()
        k = peer.answered
        m = reqs[k]
        path = m.target.decode()
        j = int(path.split("r")[1].split("k")[0])
        keyid = int(path.split("k")[1])
        peer.requests_seen.append((j, keyid))
        peer.answered += 1
        data, extras, close = plan(self.behs[j % len(self.behs)], j)
        base = sum(len(x) for x in st.sent)
        if data:
            peer.send(data)
        # layout bookkeeping: which byte ranges are the genuine answer to j
        own = response(f"R{j}", "cl")
        own_len = len(data)
        for b in ("surplus-same", "surplus-same-chunked", "204-surplus", "surplus-partial-same", "surplus-same-close"):
            if self.behs[j % len(self.behs)] == b:
                own_len = len(data) - (25 if b == "surplus-partial-same" else len(response(f"STALE{j}", "close")) if b == "surplus-same-close"
                                       else len(response(f"STALE{j}")) if b != "204-surplus" else len(b"stray-body"))
        self.sent_map.setdefault(c, []).append((base, base + own_len, j))
        if own_len < len(data):
            self.sent_map[c].append((base + own_len, base + len(data), None))
        if extras:
            self.extras.setdefault(c, []).extend(extras)
        if close:
            self.closes[c] = True

    def _extra(self, c):
        ct, st, peer = self.connector.created[c]
        data = self.extras[c].pop(0)
        base = sum(len(x) for x in st.sent)
        peer.send(data)
        self.sent_map.setdefault(c, []).append((base, base + len(data), None))

    def _deliver(self, c, n=None):
        ct, st, peer = self.connector.created[c]
        before = self._delivered(c)
        data = ct.deliver(n)
        if data:
            self.tick += 1
            self.deliv.setdefault(c, []).append((self.tick, before, before + len(data)))
            # stray bytes reaching the client protocol taint the connection - unless
            # an exchange is open on it whose answer has not fully arrived yet: then
            # the client cannot tell them from (the beginning of) that answer
            for (s, e, j) in self.sent_map.get(c, []):
                if j is None and s < before + len(data) and e > before:
                    owner = next((jj for (_s2, e2, jj) in self.sent_map.get(c, []) if jj is not None and e2 == s), None)
                    latest = max(((t, j2) for j2, acqs in self.acq.items() for (t, cc) in acqs if cc == c), default=(0, None))[1]
                    if owner is not None and owner == latest:
                        # glued to the end of an answer: beyond the end of that response, whoever is waiting
                        self._taint(c, "had received bytes beyond the end of a response")
                    elif not self._exchange_open(c, before):
                        self._taint(c, "had received stray bytes")

    def _exchange_open(self, c, delivered_before):
        for j, acqs in self.acq.items():
            for (_t, cc) in acqs:
                if cc != c:
                    continue
                ranges = [(s, e) for (s, e, jj) in self.sent_map.get(c, []) if jj == j]
                if not ranges or delivered_before < ranges[-1][1]:
                    if j not in self.results:
                        return True
        return False

    def _delivered(self, c):
        d = self.deliv.get(c)
        return d[-1][2] if d else 0

    def _peer_close(self, c):
        ct, st, peer = self.connector.created[c]
        self.closes[c] = False
        peer.close()

    def _eof(self, c):
        ct, st, peer = self.connector.created[c]
        self.tick += 1
        self._taint(c, "had seen the peer's FIN")
        ct.deliver_eof()

    def menu(self):
        m = []
        for c, (ct, st, peer) in enumerate(self.connector.created):
            if peer.lost is None and not st.is_closing():
                reqs = peer.requests()
                if peer.answered < len(reqs) and (reqs[peer.answered].complete or reqs[peer.answered].framing != "none"):
                    m.append((f"c{c}.respond", lambda c=c: self._respond(c)))
            n = ct.deliverable()
            if n:
                m.append((f"c{c}.tx.all", lambda c=c: self._deliver(c)))
                # up to the end of the current layout piece, and a short first segment
                pos = self._delivered(c)
                ends = sorted({e - pos for (s, e, j) in self.sent_map.get(c, []) if pos < e < pos + n})
                if ends:
                    m.append((f"c{c}.tx.piece", lambda c=c, k=ends[0]: self._deliver(c, k)))
                if n > 20:
                    m.append((f"c{c}.tx.20", lambda c=c: self._deliver(c, 20)))
                # up to the end of the next response head (the body then arrives glued to whatever follows it)
                he = bytes(st.wire).find(b"\r\n\r\n")
                if 0 <= he and he + 4 < n:
                    m.append((f"c{c}.tx.head", lambda c=c, k=he + 4: self._deliver(c, k)))
            if self.extras.get(c) and not st.is_closing():
                m.append((f"c{c}.extra", lambda c=c: self._extra(c)))
            elif self.closes.get(c) and not st.is_closing() and not self.extras.get(c):
                m.append((f"c{c}.peerclose", lambda c=c: self._peer_close(c)))
            if ct.eof_deliverable():
                m.append((f"c{c}.eof", lambda c=c: self._eof(c)))
        if self.think is not None and not self.think.done():
            m.append(("app.next", lambda: self.think.done() or self.think.set_result(None)))
        return m

    def faults(self):
        f = []
        if "drop" in self.faultset:
            for c, (ct, st, peer) in enumerate(self.connector.created):
                if not ct._lost_called and not ct.is_closing():
                    f.append((f"c{c}.reset", lambda c=c, ct=ct: (self._taint(c, "was reset"), ct.drop())))
        if "cancel" in self.faultset:
            for i, t in enumerate(self.tasks):
                if not t.done():
                    f.append((f"cancel.app{i}", t.cancel))
        return f

    # ---- oracle ----------------------------------------------------------------------
    def P(self, sig, msg):
        self.problems.append((f"C06:{sig}", msg))

    def monitor(self):
        self.tick += 1
        # client -> peer bytes travel without a choice (the peer only records)
        for c, (ct, st, peer) in enumerate(self.connector.created):
            if st.deliverable():
                st.deliver()
            if st.eof_deliverable():
                st.deliver_eof()

    def final(self):
        self.monitor()
        for j, res in sorted(self.results.items()):
            if res[0] != "ok":
                continue
            _ok, status, stamp, body, mode = res
            want = f"R{j}"
            if stamp != want:
                if stamp is None:
                    self.P("unstamped-response", f"request {j} got a response without stamp (status {status})")
                    continue
                # which connection served it, and were the stray bytes already there when it was acquired?
                acqs = self.acq.get(j, [])
                late = False
                for (t_acq, c) in acqs:
                    for (s, e, jj) in self.sent_map.get(c, []):
                        if jj is None:
                            first = next((t for (t, a, b) in self.deliv.get(c, []) if b > s), None)
                            if first is not None and first > t_acq:
                                late = True
                # ... or the response it was given itself arrived only after this request owned the connection (the
                # answers on this connection were shifted by an unsolicited one that arrived while an earlier request was
                # outstanding): no client can tell that from its own answer either
                own = int(stamp[1:]) if stamp.startswith("R") and stamp[1:].isdigit() else None
                for (t_acq, c) in acqs:
                    for (s, e, jj) in self.sent_map.get(c, []):
                        if own is not None and jj == own:
                            first = next((t for (t, a, b) in self.deliv.get(c, []) if b > s), None)
                            if first is not None and first > t_acq:
                                late = True
                if late:
                    continue  # stray bytes arrived after the request owned the connection: indistinguishable from its answer
                kind = "stale-bytes-delivered-as-response" if stamp.startswith("STALE") else "response-of-another-request"
                self.P(kind, f"request {j} received the response stamped {stamp} (acquired {acqs}, deliveries {self.deliv}, results {self.results})")
            elif mode == "read" and body != (b"" if status in (204, 101) else b"body-" + want.encode()):
                beh = self.behs[j % len(self.behs)]
                full = b"body-" + want.encode()
                if beh == "eof" and full.startswith(body) and any(
                        jj == j and self._delivered(c) < e
                        for c in self.sent_map for (s, e, jj) in self.sent_map[c]):
                    # a close-delimited body ends where the connection ended: the peer's bytes never all arrived
                    # (reset injected mid-body), and what was read is a prefix of what it sent for this request
                    continue
                self.P("body-differs", f"request {j} ({beh}) read {body!r}")
        # keys never share a connection
        for c, (ct, st, peer) in enumerate(self.connector.created):
            for (j, keyid) in peer.requests_seen:
                url, kw = KEYS[keyid]
                k0 = peer.key
                want = self._key_of(keyid)
                if want != (k0.host, k0.port, k0.is_ssl, str(k0.proxy), k0.ssl):
                    self.P("key-mixup", f"request {j} for key {want} travelled on a connection opened for {k0}")
        for e in self.loop.collect_exceptions():
            msg = str(e.get("message"))
            if "Unclosed" in msg:
                continue
            self.P("loop-exception", f"loop exception handler: {msg} {e.get('exception')!r}")
        return (tuple(sorted((j, r[:3]) for j, r in self.results.items())), len(self.connector.created))

    def _key_of(self, keyid):
        from yarl import URL

        url, kw = KEYS[keyid]
        u = URL(url)
        return (u.raw_host, u.port, u.scheme == "https", str(kw.get("proxy") and URL(kw["proxy"])) if kw.get("proxy") else "None",
                kw.get("ssl", True))

    def state(self):
        return None

    def close(self):
        for t in self.tasks:
            if not t.done():
                t.cancel()
        self.connector._close_immediately()


def factory(case, loop):
    return Scen(case, loop)


STRAY = ["surplus-same", "surplus-same-chunked", "surplus-later", "partial-stray-later", "garbage-later", "crlf-later",
         "two-stale-later", "1xx-late", "conn-close-then-stale", "204-surplus", "surplus-partial-same", "bare101-later", "surplus-same-close"]
PLAIN = ["exact", "chunked", "1xx", "eof", "conn-close", "trunc", "close-after", "204", "silent-close"]


def cases(quick):
    out = []
    G = {"method": "GET"}
    for b in STRAY + PLAIN:
        for mode in ("read", "release", "partial", "close"):
            out.append({"name": f"{b}/{mode}", "reqs": [dict(G, read=mode), dict(G), dict(G)], "peer": [b, "exact", "exact"], "faults": ["drop"]})
    for b in STRAY:
        out.append({"name": f"{b}-twice", "reqs": [dict(G), dict(G), dict(G)], "peer": [b, b, "exact"], "faults": []})
        out.append({"name": f"post-{b}", "reqs": [{"method": "POST", "data": b"xy"}, {"method": "POST", "data": b"z"}], "peer": [b, "exact"], "faults": []})
        out.append({"name": f"concurrent-{b}", "reqs": [dict(G), dict(G)], "peer": [b, "exact"], "concurrent": 2, "limit": 1, "faults": ["cancel"]})
    # Expect: 100-continue answered with a final response and no 100 (the body is never sent)
    for b in ("exact", "chunked", "conn-close", "1xx"):
        for mode in ("read", "release"):
            out.append({"name": f"expect100-early-final-{b}/{mode}", "reqs": [{"method": "POST", "data": b"xy" * 40, "expect100": True, "read": mode}, dict(G), dict(G)],
                        "peer": [b, "exact", "exact"], "faults": ["drop"]})
    # key lattice: every pair of keys, sequentially on one session
    for a in KEYS:
        for b2 in KEYS:
            if a < b2:
                out.append({"name": f"keys-{a}-{b2}", "reqs": [dict(G, key=a), dict(G, key=b2), dict(G, key=a)], "peer": ["exact"], "faults": []})
                # both connections idle in the pool (possibly across a keep-alive sweep), then the second key again
                out.append({"name": f"keys-{a}-{b2}-{b2}", "reqs": [dict(G, key=a), dict(G, key=b2), dict(G, key=b2)], "peer": ["exact"], "faults": []})
    return out


def _job(job):
    case, bound, max_execs = job
    part = Part()
    name = case["name"]

    def on_exec(ex):
        part.count("executions")
        part.count("transitions", ex.passes)
        part.outcome((name, ex.obs))
        part.state((name, ex.obs))
        for sig, msg in ex.problems:
            part.violation(sig, msg[:700] + f" | case={name} schedule={explorer.schedule_of(ex)}",
                           {"case": case, "prefix": explorer.prefix_of(ex)})
        if ex.capped:
            part.cap(f"pass horizon hit in {name}")

    st = explorer.explore(factory, case, bound, max_execs=max_execs, max_passes=1500, on_exec=on_exec)
    part.count("choice_points", st["choice_points"])
    if st["truncated"]:
        part.cap(f"execution cap {max_execs} hit for {name} at bound {bound} (complete up to bound {st['completed_bound']}, {st['executions']} executions reported)")
    if len(part.samples) < 1:
        part.sample({"case": name, "bound": bound, "executions": st["executions"]})
    return part


def run(ctx):
    ctx.rule = (
        "executions = all schedules with <= d deviations per history (2-3 requests x peer behaviour x read mode): peer respond, "
        "delivery of peer bytes (all / up to piece end / 20 bytes), stray bytes sent later, peer close/FIN, app continuing, "
        "reset, cancel; oracle = exchange stamps, taint of connections vs re-acquisition, key partition; outcome distinct by "
        "(history, per-request result, transports opened)"
    )
    ctx.assumptions += [
        "real ClientSession/BaseConnector/ResponseHandler; peers are scripted and stamp each response with the id read from the request line on that connection",
        "stray bytes that reach the client only after the next request already owns the connection are indistinguishable from its answer and are not counted",
    ]
    bound = 2 if ctx.quick else 3
    cs = cases(ctx.quick)
    # thorough = bound 3 under an execution cap per history (a cap that is hit is reported in the evidence; everything
    # with <= 2 deviations is covered completely by the DFS order before the cap can bite)
    jobs = [(c, bound, 80000 if ctx.quick else 25000) for c in cs]
    for part in ctx.pmap(_job, jobs):
        ctx.merge(part)
    ctx.notes["deviation_bound"] = bound
    ctx.notes["histories"] = len(cs)


def replay(case):
    prefix = [(tuple(l), ch) for l, ch in case["prefix"]]
    ex = explorer.run_one(factory, case["case"], prefix, max_passes=1500)
    return [{"sig": s, "msg": m, "case": case} for s, m in ex.problems]
