"""C03 HTTP parsing does not depend on how the byte stream is segmented.

STREAM engine: every stream of the request corpus (C01 baselines, every single
mutation, limit-approach inputs) and of a response corpus, under several limit
configurations, is cut in every single position, (for class representatives and
short streams) every pair of positions, byte-at-a-time and, for n <= 12, in all
2^(n-1) ways; each segmented run of the real parser (followed by feed_eof) is
compared with the un-cut run of the same parser.  See DESIGN §3 C03.
"""
from __future__ import annotations

import itertools

from mc import httpcorpus as hc
from mc import httpdrv
from mc.core import Part

PROPERTY = "C03"

REQ_CONFIGS = {
    "default": {},
    "equal-small": {"max_line_size": 64, "max_field_size": 64, "max_headers": 8},
    "line<field": {"max_line_size": 40, "max_field_size": 80, "max_headers": 8},
    "line>field": {"max_line_size": 80, "max_field_size": 40, "max_headers": 8},
    "tiny-buffer": {"limit": 2},
    "tiny-buffer-uneven": {"limit": 1, "max_line_size": 48, "max_field_size": 96, "max_headers": 6},
}


def _run(stream, cuts, kind, cfg, pkw):
    d = httpdrv.Drv(kind, **cfg, **pkw)
    prev = 0
    for c in cuts:
        d.feed(stream[prev:c])
        prev = c
    d.feed(stream[prev:])
    d.feed_eof()
    o = d.outcome()
    em = d.eof_msg
    o["eof_msg"] = None if em is None else (tuple(em.raw_headers), getattr(em, "method", None), getattr(em, "code", None))
    return o


def _is_limit(err):
    return err is not None and err[1] == "LineTooLong"


def _verdict(o):
    """(rejected?, limit-hit?, label): a stream is rejected when feed_data/feed_eof
    raised or when a delivered message's payload was failed by the parser."""
    # a failed payload belongs to an earlier point of the stream than any later
    # parser error (the parser goes on after some payload failures)
    for m in o["msgs"]:
        if m[4] is not None:
            return True, m[4] == "LineTooLong", f"payload:{m[4]}"
    e = o["error"]
    if e is not None:
        return True, e[1] == "LineTooLong", f"{e[1]}[{e[2]}]"
    return False, False, "accepted"


def differs(base, cut):
    """None if the cut run agrees with the un-cut run, else (sig, text)."""
    br, bl, blabel = _verdict(base)
    cr, cl, clabel = _verdict(cut)
    if br != cr:
        tag = "limit" if (bl or cl) else "verdict"
        return (f"{tag}-flips:{clabel if cr else blabel}", f"un-cut run: {blabel}; cut run: {clabel}")
    bm, cm = base["msgs"], cut["msgs"]
    if not br:
        if len(bm) != len(cm):
            return ("messages-differ:count", f"un-cut run delivers {len(bm)} messages, cut run {len(cm)}")
        for i, (a, b) in enumerate(zip(bm, cm)):
            if a[0] != b[0]:
                return ("messages-differ:head", f"message {i}: {a[0]!r} vs {b[0]!r}")
            if a[1] != b[1]:
                return ("messages-differ:body", f"message {i} body {a[1][:50]!r} vs {b[1][:50]!r}")
            if a[2] != b[2]:
                return ("messages-differ:chunks", f"message {i} chunk ends {a[2]} vs {b[2]}")
            if a[3] != b[3]:
                return ("messages-differ:end", f"message {i} eof {a[3]} vs {b[3]}")
        if base["upgraded"] != cut["upgraded"] or base["tail"] != cut["tail"]:
            return ("messages-differ:tail", f"upgrade/tail {(base['upgraded'], base['tail'][:40])} vs {(cut['upgraded'], cut['tail'][:40])}")
        if base["eof_msg"] != cut["eof_msg"]:
            return ("messages-differ:eof-message", f"feed_eof message {base['eof_msg']!r} vs {cut['eof_msg']!r}")
        return None
    # both rejected: a cut may only change how early the rejection is noticed -
    # the messages of one run must be a prefix of the other's, bodies likewise
    if bl != cl:
        return (f"limit-flips:{clabel if cl else blabel}", f"un-cut run: {blabel}; cut run: {clabel} (limit hit in one run only)")
    if blabel.startswith("payload:") and clabel.startswith("payload:"):
        # the parser failed a body but did not raise: nothing was lost with an exception, so what it goes on to
        # deliver (or raise) from the bytes behind that body must not depend on where the reads fell
        if [m[0] for m in bm] != [m[0] for m in cm]:
            return ("after-failed-body:messages-differ", f"un-cut run delivers {[m[0][:2] for m in bm]}, cut run {[m[0][:2] for m in cm]}")
        if (base["error"] or (None,) * 3)[1] != (cut["error"] or (None,) * 3)[1]:
            return ("after-failed-body:error-differs", f"un-cut run ends with {base['error']}, cut run with {cut['error']}")
    n = min(len(bm), len(cm))
    for i in range(n):
        a, b = bm[i], cm[i]
        if a[0] != b[0]:
            return ("rejected-prefix-differs:head", f"message {i}: {a[0]!r} vs {b[0]!r}")
        if not (a[1].startswith(b[1]) or b[1].startswith(a[1])):
            return ("rejected-prefix-differs:body", f"message {i} body {a[1][:50]!r} vs {b[1][:50]!r}")
    return None


def all_cuts_1(n):
    for i in range(1, n):
        yield (i,)


def all_cuts_2(n):
    return itertools.combinations(range(1, n), 2)


def all_segmentations(n):
    for mask in range(1 << (n - 1)):
        yield tuple(i + 1 for i in range(n - 1) if mask >> i & 1)


def check_stream(part: Part, stream, kind, cfgname, cfg, pkw, label, two_cuts=False, full=False):
    base = _run(stream, (), kind, cfg, pkw)
    part.count("executions")
    n = len(stream)
    gens = [all_cuts_1(n), [tuple(range(1, n))]]
    if two_cuts:
        gens.append(all_cuts_2(n))
    if full and n <= 12:
        gens.append(all_segmentations(n))
    part.outcome((_verdict(base), len(base["msgs"]), base["upgraded"]))
    first = True
    for g in gens:
        for cuts in g:
            cut = _run(stream, cuts, kind, cfg, pkw)
            part.count("executions")
            part.count("transitions", len(cuts) + 2)
            d = differs(base, cut)
            if d is not None:
                sig, text = d
                part.violation(f"C03:{kind}:{sig}", f"{text} | cuts={list(cuts)[:6]} config={cfgname} stream={stream[:120]!r}",
                               {"stream": stream, "cuts": list(cuts), "kind": kind, "config": cfgname, "pkw": pkw, "label": repr(label)})
            elif first:
                first = False
    part.state((kind, cfgname, base["error"], tuple(m[0] for m in base["msgs"])))


def _req_streams(group):
    """Streams of one group; a group is ('base', i) | ('limits', cfgname)."""
    if group[0] == "base":
        name, segs = hc.baselines()[group[1]]
        full = hc.with_next(segs)
        yield (name, "baseline"), hc.render(full), True
        seen = set()
        for d, ms in hc.all_single(full):
            s = hc.render(ms)
            # representatives for 2-cuts: first mutation of each (segment tag / kind)
            key = d[1] if d[0] not in ("ins", "del", "dup") else d[0]
            rep = key not in seen
            seen.add(key)
            yield (name, d), s, rep
    elif group[0] == "compressed":
        for label, st in hc.compressed_request_streams():
            yield label, st, True
    elif group[0] == "limits":
        cfg = REQ_CONFIGS[group[1]]
        mls, mfs, mh = cfg.get("max_line_size", 8190), cfg.get("max_field_size", 8190), cfg.get("max_headers", 128)
        if mls > 1000:
            return
        for label, s in hc.limit_streams(mls, mfs, mh):
            yield label, s, True
        if mls != mfs:
            for label, s in hc.limit_streams(mfs, mls, mh):
                yield ("swapped",) + (label,), s, False


TINY = [b"GET / HTTP/1.1\r\nHost:a\r\n\r\n", b"A / HTTP/1.0\r\n\r\nB", b"\r\n\r\nGET /", b"G / HTTP/1.1\nH:a\r\n\r\n"]


def _job(job):
    kind, group, cfgname, two = job
    part = Part()
    if kind == "request":
        cfg = REQ_CONFIGS[cfgname]
        for label, s, rep in _req_streams(group):
            check_stream(part, s, "request", cfgname, cfg, {}, label, two_cuts=two and rep)
            if len(part.samples) < 1:
                part.sample({"stream": s, "config": cfgname, "cuts": "all single cuts, byte-at-a-time" + (", all pairs" if two and rep else "")})
    elif kind == "tiny":
        cfg = REQ_CONFIGS[cfgname]
        for s in TINY:
            for k in range(4, 13):
                check_stream(part, s[:k], "request", cfgname, cfg, {}, ("tiny", k), full=True)
    elif kind == "response-limits":
        cfg = {k: v for k, v in REQ_CONFIGS[cfgname].items()}
        mls, mfs = cfg.get("max_line_size", 8190), cfg.get("max_field_size", 8190)
        if mls <= 1000:
            for label, s in hc.response_limit_streams(mls, mfs):
                check_stream(part, s, "response", cfgname, cfg, {}, label, two_cuts=two)
    elif kind == "response":
        cfg = {k: v for k, v in REQ_CONFIGS[cfgname].items()}
        label, s, pkw = hc.response_streams()[group]
        check_stream(part, s, "response", cfgname, cfg, pkw, label, two_cuts=two)
    return part


def run(ctx):
    ctx.rule = (
        "for each (stream, limit config): one un-cut run and one run per segmentation (all single cuts, byte-at-a-time, "
        "all cut pairs for class representatives, all 2^(n-1) segmentations for n<=12), each followed by feed_eof; "
        "compared field by field with the un-cut run; states = distinct (parser kind, config, verdict, delivered heads)"
    )
    ctx.assumptions += [
        "oracle is the un-cut run of the same implementation (no external reference needed for independence)",
        "payload streams are drained after every feed so a paused parser resumes (consumer always reads)",
    ]
    nb = len(hc.baselines())
    jobs = []
    if ctx.quick:
        cfgs = ["default", "line<field", "line>field", "tiny-buffer"]
        # which configs get the all-pairs treatment rotates with the seed; each slice is enumerated completely
        two_for = {cfgs[ctx.seed % len(cfgs)]}
    else:
        cfgs = list(REQ_CONFIGS)
        two_for = set(cfgs)
    for c in cfgs:
        for i in range(nb):
            jobs.append(("request", ("base", i), c, c in two_for))
        jobs.append(("request", ("limits", c), c, True))
        jobs.append(("request", ("compressed",), c, True))
        jobs.append(("tiny", None, c, False))
        for r in range(len(hc.response_streams())):
            jobs.append(("response", r, c, True))
        jobs.append(("response-limits", None, c, True))
    for part in ctx.pmap(_job, jobs):
        ctx.merge(part)
    ctx.notes["configs"] = cfgs
    ctx.notes["two_cut_slice"] = sorted(two_for)


def replay(case):
    kind = case["kind"]
    cfg = REQ_CONFIGS[case["config"]]
    pkw = case.get("pkw") or {}
    base = _run(case["stream"], (), kind, cfg, pkw)
    cut = _run(case["stream"], tuple(case["cuts"]), kind, cfg, pkw)
    d = differs(base, cut)
    if d is None:
        return []
    return [{"sig": f"C03:{kind}:{d[0]}", "msg": d[1], "case": case}]
