"""C17 Redirects confine credentials and terminate.

Exhaustive chain enumeration (SCHED engine, default schedule - a redirect chain is sequential;
DESIGN §3 C17): a real `ClientSession` with a real `CookieJar` over the in-memory connector follows
redirect chains served by scripted origins.  Chains = origin sequences (<= 2 hops, 3 in thorough) over
{http://a.test, http://a.test:8080, https://a.test, http://b.test} x status per hop x method x body
kind x Location form (absolute, path-relative, scheme-relative, with credentials, non-HTTP, invalid)
x max_redirects.  Every origin records what it receives.  Oracle: secret-confinement model (caller
secrets only while the whole chain so far stayed on the first origin; jar cookies only those of the
hop's own host), the documented method/body table, request count, refusal of non-HTTP targets,
history order and release of every intermediate response.
"""
from __future__ import annotations

import asyncio
import itertools

import aiohttp
from aiohttp import ClientTimeout
from yarl import URL

from mc.client import ScriptPeer, WireConnector
from mc.core import Part
from mc.vloop import VLoop
from refs import http1

PROPERTY = "C17"

ORIGINS = {"A": "http://a.test", "A8": "http://a.test:8080", "AS": "https://a.test", "B": "http://b.test"}
HOSTS = {"A": "a.test", "A8": "a.test", "AS": "a.test", "B": "b.test"}
STATUSES = [301, 302, 303, 307, 308]
CALLER_AUTH = "Basic Q0FMTEVSOnNlY3JldA=="        # CALLER:secret
CALLER_COOKIE_HDR = "callerhdr=1"
CALLER_PA = "Basic UFJPWFk6cHc="
REQ_COOKIE = ("reqck", "1")
BODY = b"payload-bytes"


class Env:
    def __init__(self):
        self.peers = []

    def connect_gate(self, req):
        return None

    def new_peer(self, req, index):
        p = ScriptPeer(self, index, req.connection_key)
        self.peers.append(p)
        return p

    def on_acquire(self, proto, req):
        pass


def location(form, nxt_origin, k, cur_origin):
    base = ORIGINS[nxt_origin]
    if form == "abs":
        return f"{base}/h{k}"
    if form == "rel":
        return f"/h{k}"                              # only meaningful when the origin does not change
    if form == "schemerel":
        return "//" + base.split("//", 1)[1] + f"/h{k}"
    if form == "creds":
        return base.replace("://", "://hopuser:hoppw@") + f"/h{k}"
    if form == "mailto":
        return "mailto:someone@example.com"
    if form == "ftp":
        return f"ftp://{HOSTS[nxt_origin]}/h{k}"
    if form == "invalid":
        return "http://[::1/h1"
    if form == "query":
        return f"{base}/h{k}?next=1#frag"
    if form == "noloc":
        return ""
    raise KeyError(form)


def run_chain(case):
    """Returns (records, outcome): records = [(origin label, RefMsg)] in arrival order."""
    loop = VLoop().hold()
    try:
        env = Env()
        connector = WireConnector(env, limit=10)
        jar = aiohttp.CookieJar()
        jar.update_cookies({"jar_a": "1"}, URL("http://a.test/"))
        jar.update_cookies({"jar_b": "1"}, URL("http://b.test/"))
        session = aiohttp.ClientSession(connector=connector, cookie_jar=jar, timeout=ClientTimeout(total=None))
        origins, hops = case["origins"], case["hops"]
        method, body_kind = case["method"], case["body"]
        start = ORIGINS[origins[0]] + "/h0"
        if case.get("url_creds"):
            start = start.replace("://", "://urluser:urlpw@")
        kw = {"headers": {}, "max_redirects": case.get("max_redirects", 10)}
        if case.get("auth_header", True):
            kw["headers"]["Authorization"] = CALLER_AUTH
        kw["headers"]["Cookie"] = CALLER_COOKIE_HDR
        kw["headers"]["Proxy-Authorization"] = CALLER_PA
        kw["cookies"] = dict([REQ_COOKIE])
        if case.get("host_header"):
            kw["headers"]["Host"] = "virt.test"       # names the host of the URL that is asked for, and only that one
        if case.get("chunked"):
            kw["chunked"] = True          # the caller asks for chunked framing of its body
        if case.get("compress"):
            kw["compress"] = True
        if case.get("expect100"):
            kw["expect100"] = True
        if body_kind == "bytes":
            kw["data"] = BODY
        elif body_kind == "iter":
            async def gen():
                yield BODY[:5]
                yield BODY[5:]
            kw["data"] = gen()
        result = {}

        async def go():
            try:
                async with session.request(method, start, **kw) as resp:
                    await resp.read()
                    result["status"] = resp.status
                    result["history"] = [(h.status, str(h.url.with_user(None).with_password(None) if h.url.user else h.url)) for h in resp.history]
                    result["final_url"] = str(resp.url)
            except Exception as e:  # noqa: BLE001
                result["error"] = type(e).__name__

        # history: connections to the origins already idle in the pool (an earlier, unrelated request on the session)
        warm = None
        if case.get("drop_reused"):
            async def warm_up():
                for o in dict.fromkeys(origins):
                    async with session.get(ORIGINS[o] + "/warm") as r:
                        await r.read()
            warm = loop.create_task(warm_up())
        task = None
        records = []
        answered = {}
        continued = set()
        dropped = set()
        for _ in range(600):
            loop.drain(500)
            progressed = False
            if task is None and (warm is None or warm.done()):
                if warm is not None:
                    warm.result()
                task = loop.create_task(go())
                progressed = True
            for idx, (ct, st, peer) in enumerate(connector.created):
                if st.deliverable():
                    st.deliver()
                    progressed = True
                reqs = http1.read_requests(bytes(peer.buf)).messages
                done = answered.get(idx, 0)
                if done < len(reqs) and not reqs[done].complete and (idx, done) not in continued and (header(reqs[done], "Expect") or "").lower() == "100-continue":
                    continued.add((idx, done))
                    peer.send(b"HTTP/1.1 100 Continue\r\n\r\n")
                    progressed = True
                while done < len(reqs) and reqs[done].complete:
                    m = reqs[done]
                    done += 1
                    label = next((o for o in ORIGINS if key_matches(peer.key, o)), "?")
                    path = m.target.decode().split("?")[0]
                    if path == "/warm":
                        peer.send(b"HTTP/1.1 200 OK\r\nContent-Length: 2\r\n\r\nok")
                        progressed = True
                        continue
                    if case.get("drop_reused") and done > 1 and not dropped and path != "/h0":      # once per call: the client retries once
                        # the pooled connection dies as the redirected request arrives on it: the client sends the
                        # request again on a fresh connection - the same request, with what this hop may carry
                        dropped.add(idx)
                        records.append((label, m, "dropped"))
                        st.close()
                        progressed = True
                        break
                    records.append((label, m))
                    k = int(path[2:]) if path.startswith("/h") and path[2:].isdigit() else -1
                    if 0 <= k < len(hops):
                        st_code, form = hops[k]
                        loc = location(form, origins[k + 1] if k + 1 < len(origins) else origins[k], k + 1, origins[k])
                        resp = f"HTTP/1.1 {st_code} Redirect\r\nLocation: {loc}\r\nContent-Length: 4\r\n\r\nmove".encode()
                        if form == "noloc":
                            resp = f"HTTP/1.1 {st_code} Redirect\r\nContent-Length: 4\r\n\r\nmove".encode()
                    else:
                        resp = b"HTTP/1.1 200 OK\r\nContent-Length: 5\r\n\r\nfinal"
                    if m.method.upper() == b"HEAD":
                        resp = resp.split(b"\r\n\r\n")[0] + b"\r\n\r\n"
                    peer.send(resp)
                    progressed = True
                answered[idx] = done
                if ct.deliverable():
                    ct.deliver()
                    progressed = True
                elif ct.eof_deliverable():
                    ct.deliver_eof()
                    progressed = True
            if task is not None and task.done() and not progressed:
                break
            if not progressed and not loop.has_ready():
                break
        if task is None:
            task = loop.create_task(go())
            loop.drain(50)
        hung = not task.done()
        if hung:
            task.cancel()
            loop.drain(50)
        leaked = len(connector._acquired)
        loop.create_task(session.close())
        loop.drain(100)
        return records, result, hung, leaked
    finally:
        loop.finish()


def key_matches(key, o):
    u = URL(ORIGINS[o])
    return key.host == u.raw_host and key.port == u.port and key.is_ssl == (u.scheme == "https")


def header(m, name):
    vals = [v for (k, v) in m.headers if k.lower() == name.lower().encode()]
    return b", ".join(vals).decode("latin1") if vals else None


def judge(part, case, records, result, hung, leaked):
    origins, hops = case["origins"], case["hops"]
    tag = f"{case['method']} body={case['body']}{'/chunked' if case.get('chunked') else ''}{'/compress' if case.get('compress') else ''}{'/expect100' if case.get('expect100') else ''} chain={[o for o in origins]} hops={hops} max={case.get('max_redirects', 10)}"

    def V(sig, msg):
        part.violation(f"C17:{sig}", f"{tag}: {msg}", {"kind": "chain", "case": case})

    if hung:
        V("request-hangs", "the request never finished")
        return
    if leaked:
        V("connection-not-released", f"{leaked} connection(s) still acquired after the chain ended")
    # ---- expected chain: method / body table and where it must stop
    method, body = case["method"], (BODY if case["body"] in ("bytes", "iter") else b"")
    expected = []          # (origin, method, body or None=unknown)
    stop = None
    cur_m, cur_b = method, body
    maxr = case.get("max_redirects", 10)
    dropped_from = 10 ** 6       # first hop that is sent after the body (and method) were dropped
    for k in range(len(origins)):
        expected.append((origins[k], cur_m, cur_b))
        if k >= len(hops):
            break
        code, form = hops[k]
        if form == "noloc":
            # a 3xx without Location cannot be followed: it is the final response of the chain
            stop = "no-location"
            break
        if k + 1 >= maxr:
            # "at most max_redirects requests": 0 cannot mean fewer than the one request that was asked for
            stop = "too-many"
            break
        if form in ("mailto", "ftp"):
            stop = "non-http"
            break
        if form == "invalid":
            stop = "invalid"
            break
        if case["body"] == "iter" and cur_b and not ((code == 303 and cur_m != "HEAD") or (code in (301, 302) and cur_m == "POST")):
            stop = "consumed-body"
            break
        if (code == 303 and cur_m != "HEAD") or (code in (301, 302) and cur_m == "POST"):
            cur_m, cur_b = "GET", b""
            dropped_from = min(dropped_from, k + 1)
    # ---- what the origins saw
    # (an attempt whose pooled connection died is the same hop as the attempt that follows it: it is held to the same
    # rules, and it does not count as a request of the chain)
    all_recs = records
    records = [(r[0], r[1]) for r in all_recs if len(r) == 2]
    seq = []
    kk = 0
    for r in all_recs:
        seq.append((kk, r[0], r[1]))
        if len(r) == 2:
            kk += 1
    if len(records) > len(expected):
        extra = records[len(expected)]
        V(f"extra-request:{stop or 'chain-end'}", f"{len(records)} requests were sent, at most {len(expected)} expected ({stop or 'end of chain'}); extra one went to {extra[0]} {extra[1].target!r}")
    if len(records) > max(maxr, 1):
        V("more-requests-than-max_redirects", f"{len(records)} requests with max_redirects={maxr}")
    for k, label, m in seq:
        if k >= len(expected):
            continue
        want_o, want_m, want_b = expected[k]
        if label != want_o:
            V("wrong-origin", f"hop {k} went to {label}, expected {want_o}")
            continue
        same_origin_so_far = all(origins[j] == origins[0] for j in range(k + 1))
        got_m = m.method.decode().upper()
        if got_m != want_m:
            V(f"method-table:{hops[k - 1][0] if k else 'first'}:{method}->{got_m}", f"hop {k} used {got_m}, the documented table gives {want_m}")
        got_b = m.body
        if (header(m, "Content-Encoding") or "").lower() == "deflate" and case.get("compress") and k < dropped_from:
            import zlib
            try:
                got_b = zlib.decompress(m.body)
            except zlib.error:
                pass
        # ---- the header fields that describe the body follow the body
        desc = {n: header(m, n) for n in ("Content-Length", "Content-Type", "Content-Encoding", "Transfer-Encoding", "Expect")}
        if k >= dropped_from:
            stale = {n: v for n, v in desc.items() if v is not None and not (n == "Content-Length" and v == "0")}
            if stale:
                V(f"body-dropped-but-described:{'+'.join(sorted(stale))}",
                  f"hop {k} is the {want_m} that replaces a {method} with a body, and it still carries {stale}")
        elif k > 0 and got_m == method:
            first = {n: header(records[0][1], n) for n in desc}
            if desc != first:
                diff = {n: (first[n], desc[n]) for n in desc if desc[n] != first[n]}
                V(f"body-description-changes:{'+'.join(sorted(diff))}",
                  f"hop {k} repeats the {method} of hop 0 with the same body, but its body-describing fields differ (first, now): {diff}")
        if want_b is not None and got_b != want_b and not (want_m == "HEAD"):
            V(f"body-table:{hops[k - 1][0] if k else 'first'}", f"hop {k} carried body {m.body[:20]!r}, expected {want_b[:20]!r}")
        if case.get("host_header"):
            hh = header(m, "Host")
            if k == 0 and hh != "virt.test":
                V("caller-host-not-sent", f"hop 0 carried Host {hh!r}, the caller asked for 'virt.test'")
            if k > 0 and hh == "virt.test":
                V("caller-host-follows-redirect", f"hop {k} ({label}) carried the caller's Host header")
        # ---- secrets
        auth = header(m, "Authorization")
        cookie = header(m, "Cookie") or ""
        pa = header(m, "Proxy-Authorization")
        hop_creds_here = k > 0 and hops[k - 1][1] == "creds"
        caller_ok = same_origin_so_far
        if auth == CALLER_AUTH and not caller_ok:
            V("authorization-leaked", f"hop {k} ({label}) received the caller's Authorization header after the chain left {origins[0]}")
        if auth is not None and auth != CALLER_AUTH and "dXJsdXNlcjp1cmxwdw==" in auth and not caller_ok:
            V("url-credentials-leaked", f"hop {k} ({label}) received the credentials of the caller's URL")
        if auth is not None and "aG9wdXNlcjpob3Bwdw==" in auth and not hop_creds_here:
            # credentials that came with an earlier Location: fine on the same origin, not after leaving it
            src = max(i for i in range(1, k + 1) if hops[i - 1][1] == "creds") if any(hops[i - 1][1] == "creds" for i in range(1, k + 1)) else None
            if src is None or any(origins[j] != origins[src] for j in range(src, k + 1)):
                V("location-credentials-leaked", f"hop {k} ({label}) received credentials that a Location header supplied for {origins[src] if src else '?'}")
        if pa is not None and not caller_ok:
            V("proxy-authorization-leaked", f"hop {k} ({label}) received the caller's Proxy-Authorization")
        if "callerhdr=1" in cookie and not caller_ok:
            V("cookie-header-leaked", f"hop {k} ({label}) received the caller's Cookie header")
        if "reqck=1" in cookie and not caller_ok:
            V("request-cookies-leaked", f"hop {k} ({label}) received the per-request cookies")
        host = HOSTS[label]
        other = "jar_b=1" if host == "a.test" else "jar_a=1"
        mine = "jar_a=1" if host == "a.test" else "jar_b=1"
        if other in cookie:
            V("jar-cookie-of-other-host", f"hop {k} ({label}) received {other}")
        if mine not in cookie and not ("callerhdr=1" in cookie):
            # when the caller's own Cookie header is still in place aiohttp merges; otherwise the jar must be re-selected
            V("jar-cookie-not-reselected", f"hop {k} ({label}) did not receive {mine}: Cookie={cookie!r}")
    # ---- outcome
    err = result.get("error")
    if stop == "non-http" and err != "NonHttpUrlRedirectClientError":
        V("non-http-target-not-refused", f"redirect to a non-HTTP target ended with {err or result.get('status')}")
    if stop == "too-many" and err != "TooManyRedirects":
        V("max_redirects-not-enforced", f"ended with {err or result.get('status')}")
    if stop == "no-location":
        k = len(expected) - 1
        if err is not None:
            V(f"no-location:ends-with-{err}", f"a {hops[k][0]} without Location is a final response, the request ended with {err}")
        else:
            want_hist = [h[0] for h in hops[:k]]
            got_hist = [s for (s, _u) in result.get("history", [])]
            if got_hist != want_hist:
                V("no-location:history-differs", f"history statuses {got_hist} for the final {hops[k][0]} without Location; the hops before it were {want_hist}")
            if result.get("status") != hops[k][0]:
                V("no-location:final-status", f"final status {result.get('status')}, expected {hops[k][0]}")
    if stop is None and err is None:
        want_hist = [h[0] for h in hops[:len(origins) - 1]]
        got_hist = [s for (s, _u) in result.get("history", [])]
        if got_hist != want_hist:
            V("history-differs", f"history statuses {got_hist}, the chain was {want_hist}")
        if result.get("status") != 200:
            V("final-status", f"final status {result.get('status')}")
    if stop is None and err is not None:
        V(f"chain-fails:{err}", "a well-formed chain ended with an error")
    part.outcome((stop, err, len(records), len(all_recs) - len(records), tuple(m.method for (_l, m) in records)))


def cases(quick):
    out = []
    O = list(ORIGINS)
    methods = ["GET", "HEAD", "POST", "PUT"]
    forms_same = ["abs", "rel", "query"]
    forms_cross = ["abs", "schemerel", "creds"]
    # 1 hop: everything
    for o0 in O:
        for o1 in O:
            forms = forms_same + ["creds"] if o0 == o1 else [f for f in forms_cross if not (f == "schemerel" and ORIGINS[o0].split(":")[0] != ORIGINS[o1].split(":")[0])]
            for st in STATUSES:
                for f in forms:
                    for mth in methods:
                        for body in (("none",) if mth in ("GET", "HEAD") else ("bytes", "iter", "none")):
                            out.append({"origins": [o0, o1], "hops": [(st, f)], "method": mth, "body": body})
    # stops
    for o0 in ("A", "AS"):
        for st in (302, 307):
            for f in ("mailto", "ftp", "invalid"):
                for mth, body in (("GET", "none"), ("POST", "bytes")):
                    out.append({"origins": [o0, "B"], "hops": [(st, f)], "method": mth, "body": body})
    # 2 hops: every origin triple; statuses full on the first hop, {302,307,303} on the second (all in thorough)
    second = STATUSES if not quick else [302, 303, 307]
    for o0, o1, o2 in itertools.product(O, repeat=3):
        for s1 in (STATUSES if not quick else [301, 303, 307]):
            for s2 in second:
                for mth, body in (("GET", "none"), ("POST", "bytes"), ("PUT", "bytes")) if quick else (("GET", "none"), ("HEAD", "none"), ("POST", "bytes"), ("PUT", "bytes"), ("POST", "iter")):
                    f1 = "abs" if o0 != o1 else "rel"
                    f2 = "abs" if o1 != o2 else "rel"
                    out.append({"origins": [o0, o1, o2], "hops": [(s1, f1), (s2, f2)], "method": mth, "body": body})
    # credentials entering on a middle hop and URL credentials of the caller
    for o0, o1, o2 in itertools.product(O, repeat=3):
        for s in (302, 307):
            out.append({"origins": [o0, o1, o2], "hops": [(s, "creds"), (s, "abs")], "method": "GET", "body": "none", "auth_header": False})
            out.append({"origins": [o0, o1, o2], "hops": [(s, "abs"), (s, "abs")], "method": "GET", "body": "none", "auth_header": False, "url_creds": True})
    # a body sent chunked, then redirected: the follow-up request has the framing of *its* body (none after a GET rewrite)
    for st in (301, 302, 303, 307, 308):
        for mth in ("POST", "PUT"):
            out.append({"origins": ["A", "A", "A"], "hops": [(st, "rel"), (302, "rel")], "method": mth, "body": "bytes", "chunked": True})
            out.append({"origins": ["A", "B"], "hops": [(st, "abs")], "method": mth, "body": "bytes", "chunked": True})
    # options that shape the body: compression and Expect: 100-continue, across drop-then-keep and keep-then-drop chains
    for opt in ("compress", "expect100"):
        for s1, s2 in itertools.product(STATUSES, repeat=2):
            for mth in ("POST", "PUT"):
                out.append({"origins": ["A", "A", "A"], "hops": [(s1, "rel"), (s2, "rel")], "method": mth, "body": "bytes", opt: True})
        for s1 in STATUSES:
            out.append({"origins": ["A", "B"], "hops": [(s1, "abs")], "method": "POST", "body": "bytes", opt: True})
    # three hops of mixed kinds: a hop that keeps the body, one that drops it, one that would keep it again
    for s1, s2, s3 in itertools.product((307, 308, 301, 303), (303, 301, 307), (302, 307, 303)):
        for mth in ("POST", "PUT"):
            for o in (["A", "A", "A", "A"], ["A", "A", "B", "B"]):
                out.append({"origins": o, "hops": [(s1, "abs"), (s2, "abs"), (s3, "abs")], "method": mth, "body": "bytes"})
    # the pooled connection of a later hop dies as the redirected request arrives: the transparent retry is that hop again
    for o in (["A", "B"], ["A", "B", "A"], ["A", "A8", "B"], ["AS", "A", "B"]):
        for st in (302, 307):
            out.append({"origins": o, "hops": [(st, "abs")] * (len(o) - 1), "method": "GET", "body": "none", "drop_reused": True})
            out.append({"origins": o, "hops": [(st, "abs")] * (len(o) - 1), "method": "GET", "body": "none", "drop_reused": True, "url_creds": True, "auth_header": False})
    # a Host header of the caller's
    for o in (["A", "A", "A"], ["A", "B", "A"], ["A", "A8", "B"]):
        for st in (302, 307):
            for mth, body in (("GET", "none"), ("POST", "bytes")):
                out.append({"origins": o, "hops": [(st, "abs"), (st, "abs")], "method": mth, "body": body, "host_header": True})
    # max_redirects=0
    for mth, body in (("GET", "none"), ("POST", "bytes")):
        out.append({"origins": ["A", "A", "A"], "hops": [(302, "rel"), (302, "rel")], "method": mth, "body": body, "max_redirects": 0})
        out.append({"origins": ["A", "B", "A"], "hops": [(307, "abs"), (307, "abs")], "method": mth, "body": body, "max_redirects": 0})
    # a 3xx that carries no Location: first hop, behind another redirect, and at the max_redirects boundary
    for st in (301, 302, 303, 307, 308):
        for mth, body in (("GET", "none"), ("POST", "bytes")):
            out.append({"origins": ["A", "A"], "hops": [(st, "noloc")], "method": mth, "body": body})
            out.append({"origins": ["A", "B", "B"], "hops": [(302, "abs"), (st, "noloc")], "method": mth, "body": body})
            out.append({"origins": ["A", "A"], "hops": [(st, "noloc")], "method": mth, "body": body, "max_redirects": 1})
            out.append({"origins": ["A", "B", "B"], "hops": [(302, "abs"), (st, "noloc")], "method": mth, "body": body, "max_redirects": 2})
    # max_redirects
    for mr in (1, 2, 3):
        for o in (["A", "A", "A", "A"], ["A", "B", "A", "B"]):
            out.append({"origins": o, "hops": [(302, "abs")] * 3, "method": "GET", "body": "none", "max_redirects": mr})
            out.append({"origins": o, "hops": [(307, "abs")] * 3, "method": "POST", "body": "bytes", "max_redirects": mr})
    if not quick:
        for o0, o1, o2, o3 in itertools.product(O, repeat=4):
            for s in (302, 307):
                out.append({"origins": [o0, o1, o2, o3], "hops": [(s, "abs")] * 3, "method": "POST", "body": "bytes"})
    return out


def _job(cs):
    part = Part()
    for case in cs:
        records, result, hung, leaked = run_chain(case)
        part.count("executions")
        part.count("transitions", len(records) + 1)
        part.state((tuple(case["origins"]), tuple(case["hops"])))
        judge(part, case, records, result, hung, leaked)
    if cs:
        part.sample({"case": cs[len(cs) // 2]})
    return part


def run(ctx):
    ctx.rule = (
        "chains = origin sequences over {http://a.test, http://a.test:8080, https://a.test, http://b.test} (all pairs, all triples, all quadruples in "
        "thorough) x redirect status per hop x method x body kind (none, bytes, one-shot async iterable) x Location form (absolute, path-relative, with "
        "query/fragment, scheme-relative, with credentials, mailto:, ftp:, unparsable) x max_redirects; states = distinct (origin sequence, hops); outcomes "
        "distinct by (stop reason, error, requests made, methods)"
    )
    ctx.assumptions += [
        "real ClientSession + real CookieJar (jar cookies for a.test and b.test) over the in-memory connector; origins are scripted and record every request "
        "through the independent RFC 9112 reader; the chain is sequential, so the default schedule is the only one",
        "caller secrets: Authorization, Cookie and Proxy-Authorization headers, cookies=; they may appear only while every hop so far had the first hop's origin",
        "documented table: 303 (except HEAD) and 301/302 for POST become GET without a body; everything else keeps method and body",
    ]
    cs = cases(ctx.quick)
    jobs = [cs[i:i + 60] for i in range(0, len(cs), 60)]
    for part in ctx.pmap(_job, jobs):
        ctx.merge(part)
    ctx.notes["chains"] = len(cs)


def replay(case):
    c = case["case"]
    c = dict(c, hops=[tuple(h) for h in c["hops"]])
    part = Part()
    records, result, hung, leaked = run_chain(c)
    judge(part, c, records, result, hung, leaked)
    return part.violations
