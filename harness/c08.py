"""C08 Stream reader: exact ordered delivery with back-pressure.

Explicit-state BFS (mc.bfs) over producer/consumer operation histories of the
real `StreamReader` attached to a real `BaseProtocol`, against a byte-queue +
chunk-boundary reference model.  See DESIGN §3 C08.
"""
from __future__ import annotations

import asyncio
import warnings

from mc import bfs
from mc.vloop import VLoop

PROPERTY = "C08"

from aiohttp.base_protocol import BaseProtocol  # noqa: E402
from aiohttp.http_exceptions import LineTooLong  # noqa: E402
from aiohttp.streams import StreamReader  # noqa: E402


class _Transport:
    def __init__(self):
        self.paused = False
        self.log = []

    def pause_reading(self):
        self.paused = True
        self.log.append("pause")

    def resume_reading(self):
        self.paused = False
        self.log.append("resume")

    def is_closing(self):
        return False

    def get_extra_info(self, *a, **k):
        return None


class _Parser:
    """Stands for HttpParser/HttpPayloadParser: holds the rest of the segment
    that triggered a pause and feeds it on when the protocol resumes."""

    def __init__(self):
        self.paused = False

    def pause_reading(self):
        self.paused = True


class _Proto(BaseProtocol):
    __slots__ = ("sim",)

    def data_received(self, data):
        # resume_reading() re-enters here with b"" to process what the parser kept
        self.sim.pump()


class BoomError(Exception):
    pass


FEEDS = {"f0": b"", "fa": b"a", "fn": b"b\n", "fcd": b"cd", "f5": b"efghi"}
CONSUMERS = [
    "read1", "read2", "readall", "readany", "readline", "untild", "untilna", "exact2",
    "readchunk", "nowait1", "nowaitall", "iterchunked2", "iterchunks",
]


class Sim:
    def __init__(self, config):
        self.limit = config["limit"]
        self.direct = config.get("direct", False)
        self.alphabet = config.get("ops")
        self.loop = VLoop().hold()
        self.tr = _Transport()
        self.proto = _Proto(self.loop, parser=_Parser())
        self.proto.sim = self
        self.proto.transport = self.tr
        self.reader = StreamReader(self.proto, self.limit, loop=self.loop)
        self.problems: list[tuple[str, str]] = []
        # reference model -------------------------------------------------
        self.pending = bytearray()   # bytes received and not yet returned to the app
        self.bounds: list[int] = []  # sender chunk ends as distances into `pending`
        self.last_bound_total = 0    # total fed at the last recorded boundary
        self.total_fed = 0
        self.chunking = False
        self.eof = False             # feed_eof reached the reader
        self.eof_sent = False        # producer issued eof (may sit in the stash)
        self.exc = False
        self.stash: list = []        # producer items held back while paused
        self.task = None             # outstanding consumer op
        self.task_op = None
        self.iter_chunked = None
        self.iter_chunks = None
        self.pumping = False
        self.snap: list[int] = []
        self.req: list[int] = []
        self.unread_used = False     # unread_data() grows the buffer without the network: no back-pressure owed for it

    # ---- producer side --------------------------------------------------
    def _deliver(self, item):
        kind, data = item
        r = self.reader
        if kind == "feed":
            r.feed_data(data)
            self.pending += data
            self.total_fed += len(data)
            if data and r._size > r._high_water and not self.tr.paused:
                self.problem("flow:no-pause-above-high-water",
                             f"size {r._size} > high {r._high_water} after feed_data but transport not paused")
        elif kind == "begin":
            r.begin_http_chunk_receiving()
            self.chunking = True
        elif kind == "end":
            r.end_http_chunk_receiving()
            if self.total_fed != self.last_bound_total:
                # a chunk that carried data: its end must be reported; the end of
                # a chunk that added no bytes may be reported but need not be
                self.req.append(len(self.pending))
            self.last_bound_total = self.total_fed
            self.bounds.append(len(self.pending))
        elif kind == "eof":
            r.feed_eof()
            self.eof = True

    def pump(self):
        if self.pumping:
            return
        self.pumping = True
        try:
            while self.stash and not self.proto._reading_paused:
                self._deliver(self.stash.pop(0))
        finally:
            self.pumping = False

    def produce(self, item):
        # Data is held back by the parser while reading is paused; markers (chunk
        # begin/end, eof) follow the data they belong to: they wait only behind
        # held-back data, never on their own (the real parser calls them in the
        # same step as the feed that precedes them).
        hold = self.proto._reading_paused and not self.direct and item[0] == "feed"
        if hold or self.stash:
            self.stash.append(item)
        else:
            self._deliver(item)

    # ---- consumer side --------------------------------------------------
    def _coro(self, op):
        r = self.reader
        if op == "read1":
            return r.read(1)
        if op == "read2":
            return r.read(2)
        if op == "readall":
            return r.read()
        if op == "readany":
            return r.readany()
        if op == "readline":
            return r.readline()
        if op == "untild":
            return r.readuntil(b"d")
        if op == "untilna":
            return r.readuntil(b"\na")      # two bytes: feeds b"b\n" + b"a" put the separator across two reads
        if op == "exact2":
            return r.readexactly(2)
        if op == "readchunk":
            return r.readchunk()
        if op == "iterchunked2":
            if self.iter_chunked is None:
                self.iter_chunked = r.iter_chunked(2)
            return self.iter_chunked.__anext__()
        if op == "iterchunks":
            if self.iter_chunks is None:
                self.iter_chunks = r.iter_chunks()
            return self.iter_chunks.__anext__()
        raise KeyError(op)

    def problem(self, sig, msg):
        self.problems.append((f"C08:{sig}", msg))

    # model: consume k bytes from the front of pending
    def _consume(self, data: bytes, what: str) -> bool:
        if data:
            self.took = True
        if bytes(self.pending[: len(data)]) != data:
            self.problem("conservation:" + what.split(":")[0],
                         f"{what} returned {data!r} but the next received bytes are {bytes(self.pending[:len(data)+4])!r}")
            # resync so later steps are comparable: drop as many bytes
            del self.pending[: len(data)]
            self.bounds = [b - len(data) for b in self.bounds if b - len(data) >= 0]
            self.req = [b - len(data) for b in self.req if b - len(data) > 0]
            return False
        del self.pending[: len(data)]
        self.bounds = [b - len(data) for b in self.bounds]
        self.req = [b - len(data) for b in self.req if b - len(data) > 0]
        return True

    def _drop_stale_bounds(self):
        self.bounds = [b for b in self.bounds if b >= 0]

    def _held_by_task(self) -> int:
        """Bytes the outstanding op has taken from the buffer but not yet returned."""
        return len(self.pending) - self.reader._size

    def _check_result(self, op, res, exc):
        """Compare a completed consumer op with the reference model."""
        r = self.reader
        if exc is not None:
            if isinstance(exc, BoomError):
                if not self.exc:
                    self.problem("spurious-exception", f"{op} raised the stream error before set_exception")
                # bytes taken by the op before the error are lost with it
                self._resync()
                return ("raise", "Boom")
            if isinstance(exc, LineTooLong) and op in ("readline", "untild", "untilna"):
                lost = len(self.pending) - r._size
                if lost <= r._high_water:
                    self.problem("linetoolong-early", f"{op} raised LineTooLong after only {lost} bytes (max {r._high_water})")
                self._resync()
                return ("raise", "LineTooLong")
            if isinstance(exc, asyncio.IncompleteReadError) and op == "exact2":
                if not self.eof:
                    self.problem("incomplete-before-eof", "readexactly raised IncompleteReadError before EOF")
                self._consume(exc.partial, "readexactly:partial")
                if self.pending:
                    self.problem("eof-before-data", f"readexactly hit EOF with {bytes(self.pending)!r} undelivered")
                self._drop_stale_bounds()
                return ("raise", "Incomplete", exc.partial)
            if isinstance(exc, StopAsyncIteration) and op in ("iterchunked2", "iterchunks"):
                if not self.eof or self.pending:
                    self.problem("eof-before-data", f"{op} stopped with eof={self.eof} pending={bytes(self.pending)!r}")
                return ("stop",)
            if isinstance(exc, RuntimeError) and op in ("nowait1", "nowaitall", "nowait-2") and self.task is not None:
                return ("raise", "RuntimeError")
            self.problem("unexpected-exception:" + type(exc).__name__, f"{op} raised {exc!r}")
            self._resync()
            return ("raise", type(exc).__name__)

        if self.exc and op not in ():
            # once an error is set every read must raise it
            self.problem("error-not-raised", f"{op} returned {res!r} after set_exception")

        if op in ("readchunk", "iterchunks"):
            data, flag = res
            # Sender chunk ends are a multiset of positions (distances into
            # `pending`); `snap` holds those known when the read last started to
            # run - ends delivered re-entrantly by the resume inside that read come
            # after its decision.  Oracle (what the property promises, no more):
            #  * a True flag is only reported at a position where the sender ended
            #    a chunk, and each sender end is reported at most once;
            #  * returned data never spans a chunk end in its interior;
            #  * data that stops exactly at a chunk end known beforehand is flagged.
            n = len(data)
            ahead = sorted(b for b in self.snap if b > 0)
            if any(0 < b < n for b in self.snap):
                self.problem("readchunk-boundary", f"{op} returned {res!r} spanning a sender chunk end at {ahead[0]}")
            if flag:
                if n in self.bounds:
                    self.bounds.remove(n)
                else:
                    self.problem("readchunk-boundary", f"{op} flagged end-of-chunk {res!r} where the sender ended none")
            elif n and ahead and ahead[0] == n:
                self.problem("readchunk-boundary", f"{op} returned {res!r} unflagged though the sender's chunk ends exactly there")
            if data == b"" and not flag:
                if not self.eof or self.pending:
                    self.problem("eof-before-data", f"{op} reported EOF with eof={self.eof} pending={bytes(self.pending)!r}")
            self._consume(data, op)
            self._drop_stale_bounds()
            return ("ret", data, flag)

        data = res
        ok = self._consume(data, op)
        self._drop_stale_bounds()
        if not ok:
            return ("ret", data)
        n = {"read1": 1, "read2": 2, "nowait1": 1, "iterchunked2": 2}.get(op)
        if n is not None and len(data) > n:
            self.problem("overlong-read", f"{op} returned {len(data)} bytes")
        if op in ("read1", "read2", "readany", "iterchunked2"):
            if data == b"" and not (self.eof and not self.pending):
                self.problem("eof-before-data", f"{op} returned b'' with eof={self.eof} pending={bytes(self.pending)!r}")
        elif op == "readall":
            if not self.eof or self.pending:
                self.problem("eof-before-data", f"read() returned with eof={self.eof}, {bytes(self.pending)!r} undelivered")
        elif op == "readline":
            if not data.endswith(b"\n") and not (self.eof and not self.pending):
                self.problem("short-line", f"readline returned {data!r} without newline before EOF")
            if b"\n" in data[:-1]:
                self.problem("long-line", f"readline returned {data!r} spanning a newline")
        elif op == "untild":
            if not data.endswith(b"d") and not (self.eof and not self.pending):
                self.problem("short-line", f"readuntil returned {data!r} without separator before EOF")
            if b"d" in data[:-1]:
                self.problem("long-line", f"readuntil returned {data!r} spanning a separator")
        elif op == "untilna":
            if not data.endswith(b"\na") and not (self.eof and not self.pending):
                self.problem("short-line", f"readuntil(b'\\na') returned {data!r} without separator before EOF")
            if b"\na" in data[:-1]:
                self.problem("long-line", f"readuntil(b'\\na') returned {data!r} spanning a separator")
        elif op == "exact2":
            if len(data) != 2:
                self.problem("overlong-read", f"readexactly(2) returned {data!r}")
        return ("ret", data)

    def _resync(self):
        """After an error path that discards data: align model with the buffer."""
        r = self.reader
        buf = b"".join(r._buffer)[r._buffer_offset:]
        drop = len(self.pending) - len(buf)
        if drop < 0 or bytes(self.pending[drop:]) != buf:
            self.problem("conservation:buffer", f"buffer {buf!r} is not a suffix of received-undelivered {bytes(self.pending)!r}")
            self.pending = bytearray(buf)
            self.bounds = []
            self.req = []
            return
        del self.pending[:drop]
        self.bounds = [b - drop for b in self.bounds if b - drop >= 0]
        self.req = [b - drop for b in self.req if b - drop > 0]

    def _settle(self):
        self.snap = list(self.req)
        self.loop.drain(200)
        if self.loop.has_ready():
            self.problem("livelock", "loop did not settle in 200 passes")

    def _poll_task(self):
        if self.task is not None and self.task.done():
            t, op = self.task, self.task_op
            self.task = self.task_op = None
            try:
                res = t.result()
                return self._check_result(op, res, None)
            except BaseException as e:  # noqa: BLE001
                return self._check_result(op, None, e)
        return None

    # ---- BFS interface --------------------------------------------------
    def enabled(self):
        ops = []
        blocked = self.task is not None
        if not self.eof_sent and not self.exc:
            ops += list(FEEDS)
            if self.chunking or self.total_fed == 0 and not self.stash:
                ops.append("begin")
            if self.chunking:
                ops.append("end")
            ops.append("eof")
        if not self.exc:
            ops.append("boom")
        if not blocked:
            ops += CONSUMERS
            ops += ["unreadx", "unreadyz"]
        else:
            ops += ["nowait1"]
        if self.alphabet is not None:
            ops = [o for o in ops if o in self.alphabet]
        return ops

    def apply(self, op):
        r = self.reader
        obs = None
        self.took = False
        try:
            if op in FEEDS:
                self.produce(("feed", FEEDS[op]))
            elif op == "begin":
                self.produce(("begin", None))
                if not self.stash:
                    self.chunking = True
                else:
                    self.chunking = True
            elif op == "end":
                self.produce(("end", None))
            elif op == "eof":
                self.eof_sent = True
                self.produce(("eof", None))
            elif op == "boom":
                r.set_exception(BoomError("boom"))
                self.exc = True
            elif op in ("unreadx", "unreadyz"):
                data = b"x" if op == "unreadx" else b"yz"
                with warnings.catch_warnings():
                    warnings.simplefilter("ignore")
                    r.unread_data(data)
                    self.unread_used = True
                self.pending[:0] = data
                self.bounds = [b + len(data) for b in self.bounds]
                self.req = [b + len(data) for b in self.req]
            elif op in ("nowait1", "nowaitall", "nowait-2"):
                from mc import core
                try:
                    with core.deadline(2.0):
                        res = r.read_nowait({"nowait1": 1, "nowaitall": -1, "nowait-2": -2}[op])      # any negative n: everything
                except core.ExecutionTimeout:
                    self.problem("read_nowait-does-not-return", f"read_nowait({-2 if op == 'nowait-2' else op}) spins with {bytes(self.pending)!r} buffered")
                    self._resync()
                    obs = ("hang",)
                except BaseException as e:  # noqa: BLE001
                    obs = self._check_result(op, None, e)
                else:
                    if self.task is not None:
                        self.problem("nowait-while-waiting", "read_nowait succeeded while a reader is blocked")
                    obs = self._check_result(op, res, None)
            else:
                assert self.task is None
                self.task = asyncio.ensure_future(self._coro(op), loop=self.loop)
                self.task_op = op
        except BaseException as e:  # noqa: BLE001
            self.problem("producer-exception:" + type(e).__name__, f"{op} raised {e!r}")
            obs = ("raise", type(e).__name__)
        self._settle()
        done = self._poll_task()
        if done is not None:
            obs = (obs, done) if obs is not None else done
        elif self.task is not None and obs is None:
            obs = ("blocked",)
        self._invariants(op)
        return obs

    def _invariants(self, op):
        r = self.reader
        # conservation at rest: bytes in the buffer are a suffix of pending,
        # the difference being held by the outstanding op
        buf = b"".join(r._buffer)[r._buffer_offset:]
        if r._size != len(buf):
            self.problem("size-accounting", f"_size={r._size} but buffer holds {len(buf)} bytes")
        held = len(self.pending) - len(buf)
        if held < 0 or bytes(self.pending[held:]) != buf:
            self.problem("conservation:buffer", f"buffer {buf!r} is not the tail of received-undelivered {bytes(self.pending)!r}")
        elif held and self.task is None:
            self.problem("conservation:lost", f"{held} byte(s) {bytes(self.pending[:held])!r} vanished with no read outstanding")
        # no stuck pause
        if self.task is not None and not buf:
            if self.tr.paused:
                self.problem("flow:blocked-reader-paused", "reader blocked on an empty buffer while the transport is paused")
            if self.stash:
                self.problem("flow:blocked-reader-paused", "reader blocked on an empty buffer while the parser still holds data")
        if self.task is not None and self.eof and not self.exc:
            self.problem("blocked-after-eof", f"{self.task_op} still blocked after EOF")
        # drained below low water => resumed (checked after a consuming op)
        if self.tr.paused and not self.eof:
            nsplits = len(r._http_chunk_splits) if r._http_chunk_splits is not None else 0
            if op in CONSUMERS and self.took and r._size < r._low_water and nsplits < r._low_water_chunks and held >= 0 and (
                self.task is None or not buf
            ) and op not in ("iterchunked2",):
                self.problem("flow:not-resumed-below-low-water",
                             f"transport paused with size {r._size} < low {r._low_water}, splits {nsplits}")
        # back-pressure holds at rest, not only right after the feed: a resume whose held-back data refills the
        # buffer above the high-water mark must leave the transport paused
        if not self.eof and not self.exc and not self.unread_used and r._size > r._high_water and not self.tr.paused:
            self.problem("flow:reading-above-high-water", f"transport reading with size {r._size} > high {r._high_water} after {op}")
        if self.tr.paused != self.proto._reading_paused and not self.tr.paused:
            # protocol believes paused while transport reads: harmless direction is
            # transport paused while protocol thinks not; flag both as accounting bugs
            self.problem("flow:pause-flag-desync", f"protocol flag {self.proto._reading_paused} transport {self.tr.paused}")

    def canon(self):
        r = self.reader
        pieces = list(r._buffer)
        if pieces and r._buffer_offset:
            pieces[0] = pieces[0][r._buffer_offset:]
        splits = None
        if r._http_chunk_splits is not None:
            splits = tuple(s - r._cursor for s in r._http_chunk_splits)
        held = bytes(self.pending[: max(0, len(self.pending) - r._size)])
        return (
            tuple(pieces), splits, r.total_bytes > 0, r.total_bytes - (self.last_bound_total),
            r._eof, r._exception is not None, r._low_water, r._high_water,
            self.proto._reading_paused, self.tr.paused,
            self.task_op, held, tuple(self.stash), self.eof_sent, self.chunking,
            tuple(self.bounds), tuple(self.req), self.iter_chunked is not None,
            r.total_bytes - r._cursor - r._size - len(held), r._buffer_offset < 0, self.unread_used,
        )

    def close(self):
        self.loop.finish([self.task] if self.task is not None else [])


def make(config):
    return EmptySim(config) if config.get("empty") else Sim(config)


class EmptySim:
    """The shared EMPTY_PAYLOAD object that stands for the body of every bodyless message, against a fresh
    EmptyStreamReader per message: what one response's content does must not depend on what was read from
    other bodyless responses before (differential oracle, no hand-written expectation)."""

    OPS = ["new-response", "readchunk", "read", "readany", "readline", "iter_chunks", "iter_any", "iter_chunked", "nowait"]

    def __init__(self, config):
        from aiohttp.streams import EMPTY_PAYLOAD, EmptyStreamReader
        self.loop = VLoop().hold()
        self.real = EMPTY_PAYLOAD
        self.real._read_eof_chunk = False          # as in a fresh process
        self.fresh = EmptyStreamReader
        self.ref = EmptyStreamReader()
        self.problems = []
        self.hist = []

    def enabled(self):
        return self.OPS

    def _run(self, obj, op):
        async def go():
            if op == "readchunk":
                return await obj.readchunk()
            if op == "read":
                return await obj.read()
            if op == "readany":
                return await obj.readany()
            if op == "readline":
                return await obj.readline()
            if op == "nowait":
                return obj.read_nowait()
            it = {"iter_chunks": obj.iter_chunks, "iter_any": obj.iter_any, "iter_chunked": lambda: obj.iter_chunked(2)}[op]()
            out = []
            async for x in it:
                out.append(x)
                if len(out) > 4:
                    return ("does-not-end", tuple(out))
            return tuple(out)
        t = self.loop.create_task(go())
        self.loop.drain(200)
        if not t.done():
            t.cancel()
            self.loop.drain(10)
            return ("blocked",)
        try:
            return ("ok", t.result())
        except BaseException as e:  # noqa: BLE001
            return ("raise", type(e).__name__)

    def apply(self, op, check=True):
        self.hist.append(op)
        if op == "new-response":
            self.ref = self.fresh()
            return ("new",)
        got = self._run(self.real, op)
        want = self._run(self.ref, op)
        if op == "readchunk" and got[0] == want[0] == "ok" and got[1][0] == want[1][0] == b"":
            # the end-of-chunk flag of an empty answer alternates on this object by (pinned) design; no data either way
            got = want
        if check and got != want:
            kind = "iteration-does-not-end" if got[0] == "ok" and isinstance(got[1], tuple) and got[1][:1] == ("does-not-end",) else "differs-from-fresh-reader"
            self.problems.append((f"C08:empty-payload:{kind}:{op}",
                                  f"{op} on the shared EMPTY_PAYLOAD gives {got!r}, on a fresh reader {want!r}, after {self.hist[:-1]}"))
        return got

    def apply_quiet(self, op):
        return self.apply(op, check=False)

    def canon(self):
        return ("empty", self.real._read_eof_chunk, self.ref._read_eof_chunk)

    def close(self):
        self.real._read_eof_chunk = False
        self.loop.finish()


def _spec(config):
    return {"module": "harness.c08", "factory": "make", "config": config}


def run(ctx):
    ctx.rule = (
        "states = canonical (buffer pieces, chunk splits, eof/exc, water marks, pause flags, outstanding read, "
        "parser stash, model bounds) of the real StreamReader reached by op histories; every enabled op is applied "
        "in every state up to the depth bound; an outcome is a distinct (op, observation) pair"
    )
    ctx.assumptions += [
        "single outstanding read (API contract); producer stops feeding after feed_eof",
        "BaseProtocol is real; transport and parser are recording stubs",
        "alphabet: feeds {b'',a,b\\n,cd,efghi}, chunk begin/end, eof, set_exception, unread_data, 12 consumer ops",
    ]
    if ctx.quick:
        plan = [({"limit": 1}, 6), ({"limit": 2}, 6), ({"limit": 4}, 5), ({"limit": 2, "direct": True}, 5)]
    else:
        plan = [({"limit": 1}, 7), ({"limit": 2}, 7), ({"limit": 4}, 6), ({"limit": 1, "direct": True}, 6),
                ({"limit": 2, "direct": True}, 6), ({"limit": 4, "direct": True}, 6)]
    for config, depth in plan:
        bfs.bfs(ctx, _spec(config), depth)
    bfs.bfs(ctx, _spec({"empty": True}), 5 if ctx.quick else 6)
    # read sizes outside the documented domain: every negative n means "everything" for read(); read_nowait() must
    # at least return.  A handful of buffer shapes, each under a CPU deadline (a spin is a violation, not a hang).
    for hist in ([], ["fa"], ["f5"], ["fcd", "f5"], ["f5", "read2"], ["fa", "eof"]):
        for op in ("nowait-2",):
            sim = Sim({"limit": 4})
            for h in hist:
                sim.apply(h)
            n0 = len(sim.problems)
            sim.apply(op)
            ctx.count("executions")
            ctx.count("transitions", len(hist) + 1)
            for sig, msg in sim.problems[n0:]:
                ctx.violation(sig, msg, {"kind": "seq", "spec": _spec({"limit": 4}), "hist": list(hist) + [op]})
            sim.close()
    ctx.notes["depth_plan"] = [[c, d] for c, d in plan]
    # depth-bounded BFS never exhausts an infinite history space: report the bound
    ctx.notes["bound"] = "all histories up to the per-config depth in depth_plan"
    ctx.exhaustive = True


def replay(case):
    return bfs.replay_case(case)
