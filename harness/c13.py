"""C13 WebSocket sessions close cleanly in every interleaving.

SCHED engine (DESIGN §3 C13): a real server-side `WebSocketResponse` (behind a
real RequestHandler) or a real `ClientWebSocketResponse` (from
`ClientSession.ws_connect` over the in-memory connector) talks to a scripted peer
on the virtual loop.  Application actors (a receiver task, a closer, a sender)
are released by environment events; the peer's frames, FIN, reset and task
cancellations are events too; a peer *timeline* (frames at fixed virtual times)
models chatty or silent peers; heartbeat / pong / receive / close timers run on
the virtual clock.  Every schedule with <= d deviations is executed and judged
after virtual time has passed every timeout.
"""
from __future__ import annotations

import asyncio
import base64
import hashlib

import aiohttp
from aiohttp import ClientTimeout, ClientWSTimeout, WSMsgType, web

from mc import explorer
from mc.client import ScriptPeer, WireConnector
from mc.core import Part
from mc.server import AppConn
from refs import ws as wsref

PROPERTY = "C13"
explorer.PROP = PROPERTY

CLOSE_TIMEOUT = 10.0
RECV_TIMEOUT = 7.0
HEARTBEAT = 6.0
GUID = b"258EAFA5-E914-47DA-95CA-C5AB0DC85B11"
KEY = b"dGhlIHNhbXBsZSBub25jZQ=="
MASK = b"\x01\x02\x03\x04"
TERMINAL = (WSMsgType.CLOSE, WSMsgType.CLOSING, WSMsgType.CLOSED, WSMsgType.ERROR)


def peer_frame(tok, masked):
    m = MASK if masked else None
    if tok == "text":
        return wsref.frame(1, b"hello", mask=m)
    if tok == "ping":
        return wsref.frame(9, b"p", mask=m)
    if tok == "pong":
        return wsref.frame(10, b"", mask=m)
    if tok == "closenc":
        return wsref.frame(8, b"", mask=m)                       # a CLOSE frame without status code (RFC 6455 5.5.1 allows it)
    if tok.startswith("close"):
        code = int(tok[5:] or 1000)
        return wsref.frame(8, code.to_bytes(2, "big") + b"bye", mask=m)
    if tok == "garbage":
        return wsref.frame(3, b"x", mask=m)                     # unknown opcode
    if tok == "badutf8":
        return wsref.frame(1, b"\xff\xfe", mask=m)
    if tok == "partial":
        return wsref.frame(1, b"hello", mask=m)[:3]
    if tok == "trickle":
        return wsref.frame(2, b"t" * 2100, mask=m)              # delivered two bytes per read by _peer_send
    raise KeyError(tok)


class Scen:
    horizon = 400.0
    clock_when_ready = False

    def __init__(self, case, loop):
        self.case = case
        self.loop = loop
        self.problems = []
        self.side = case["side"]
        self.opts = case["opts"]
        self.ws = None
        self.events = list(case["peer"])          # untimed peer tokens, in order
        self.timeline = list(case.get("timeline", ()))   # [(t, token)]
        self.received = []
        self.recv_state = "new"
        self.close_state = "idle"
        self.close_t = None
        self.close_dur = None
        self.close_ret = None
        self.send_state = "idle"
        self.gates = {}
        self.execno = {}
        self.close_cancelled_in = set()
        self.seen_our_close = False
        self.peer_close_code = None
        self.peer_close_in_time = False
        self.peer_fin = False
        self.dropped = False
        self.proto_error = False
        self.close_waiting = False
        self.abnormal_judged = False
        self.faulted = False
        self.raced = False      # an application action was admitted while callbacks were still in flight
        self.echoed = False
        self.abnormal = False
        self.tasks = {}
        if self.side == "server":
            self._setup_server()
        else:
            self._setup_client()
        for (t, tok) in self.timeline:
            loop.call_at(t, self._peer_send, tok)

    # ---------------------------------------------------------------- set-up
    def _ws_kwargs(self):
        o = self.opts
        kw = {"autoclose": o.get("autoclose", True), "autoping": o.get("autoping", True)}
        if self.case.get("bigsend"):
            kw["compress"] = 15 if self.side == "client" else True
        if self.case.get("max_msg_size"):
            kw["max_msg_size"] = self.case["max_msg_size"]
        if o.get("heartbeat"):
            kw["heartbeat"] = HEARTBEAT
        return kw

    def _setup_server(self):
        app = web.Application()
        app.router.add_get("/ws", self._server_handler)
        self.conn = AppConn(self.loop, app)
        self.out_tr = self.conn.st          # our side writes here
        self.peer_tr = self.conn.ct
        ext = b"Sec-WebSocket-Extensions: permessage-deflate\r\n" if self.case.get("bigsend") else b""
        req = (b"GET /ws HTTP/1.1\r\nHost: a\r\nUpgrade: websocket\r\nConnection: Upgrade\r\n" + ext +
               b"Sec-WebSocket-Key: " + KEY + b"\r\nSec-WebSocket-Version: 13\r\n\r\n")
        self.conn.send(req)
        self.conn.deliver_to_server()
        self.loop.drain(200)
        self.prefix_len = None

    async def _server_handler(self, request):
        kw = self._ws_kwargs()
        if self.opts.get("receive_timeout"):
            kw["receive_timeout"] = RECV_TIMEOUT
        ws = web.WebSocketResponse(timeout=CLOSE_TIMEOUT, **kw)
        await ws.prepare(request)
        self.ws = ws
        self._start_actors()
        try:
            await asyncio.gather(*[t for t in self.tasks.values()], return_exceptions=True)
        finally:
            pass
        return ws

    def _setup_client(self):
        self.connector = WireConnector(self, limit=10)
        self.session = aiohttp.ClientSession(connector=self.connector, timeout=ClientTimeout(total=None),
                                             cookie_jar=aiohttp.DummyCookieJar())
        self.tasks["connect"] = self.loop.create_task(self._client_main())
        self.loop.drain(200)
        # the scripted origin answers the handshake
        ct, st, peer = self.connector.created[0]
        self.out_tr, self.peer_tr, self.peer = ct, st, peer
        st.deliver()
        head = bytes(peer.buf)
        key = [l.split(b":", 1)[1].strip() for l in head.split(b"\r\n") if l.lower().startswith(b"sec-websocket-key")][0]
        accept = base64.b64encode(hashlib.sha1(key + GUID).digest())
        ext = b"\r\nSec-WebSocket-Extensions: permessage-deflate" if self.case.get("bigsend") else b""
        peer.send(b"HTTP/1.1 101 Switching Protocols\r\nUpgrade: websocket\r\nConnection: upgrade\r\nSec-WebSocket-Accept: " + accept + ext + b"\r\n\r\n")
        ct.deliver()
        self.loop.drain(200)
        self.client_sent_base = len(peer.buf)

    async def _client_main(self):
        kw = self._ws_kwargs()
        to = ClientWSTimeout(ws_receive=RECV_TIMEOUT if self.opts.get("receive_timeout") else None, ws_close=CLOSE_TIMEOUT)
        self.ws = await self.session.ws_connect("http://a.test/ws", timeout=to, **kw)
        self._start_actors()

    # connector callbacks
    def connect_gate(self, req):
        return None

    def new_peer(self, req, index):
        return ScriptPeer(self, index, req.connection_key)

    def on_acquire(self, proto, req):
        pass

    # ---------------------------------------------------------------- actors
    def _start_actors(self):
        if self.case.get("blocked_writes"):
            # the peer has stopped reading: the kernel buffer is full, our writes pile up in the transport
            self.out_tr.kernel_full = True
            self.out_tr.set_write_buffer_limits(high=64, low=16)
        self.tasks["recv"] = self.loop.create_task(self._receiver())
        if self.case.get("closer"):
            self.gates["close"] = self.loop.create_future()
            self.tasks["close"] = self.loop.create_task(self._closer())
        if self.case.get("sender"):
            self.gates["send"] = self.loop.create_future()
            self.tasks["send"] = self.loop.create_task(self._sender())

    async def _do_close(self, who):
        self.close_state = "running"
        self.close_who = who
        t0 = self.loop.time()
        if self.close_t is None:
            self.close_t = t0
        try:
            r = await self.ws.close()
        except asyncio.CancelledError:
            self.close_state = "cancelled"
            self.close_cancelled_in.add(who)
            raise
        except Exception as e:  # noqa: BLE001
            self.close_state = f"raised:{type(e).__name__}"
            return
        dur = self.loop.time() - t0
        self.close_dur = max(self.close_dur or 0.0, dur)
        self.close_state = "returned"
        self.close_ret = r

    async def _receiver(self):
        self.recv_state = "waiting"
        n = 0
        try:
            while True:
                msg = await self.ws.receive()
                n += 1
                self.received.append((msg.type.name, getattr(msg, "data", None) if msg.type in (WSMsgType.CLOSE, WSMsgType.TEXT) else None))
                if msg.type in TERMINAL or n > 40:
                    break
        except asyncio.CancelledError:
            self.recv_state = "cancelled"
            raise
        except asyncio.TimeoutError:
            self.recv_state = "timeout"
            await self._do_close("recv")
            return
        except Exception as e:  # noqa: BLE001
            self.recv_state = f"raised:{type(e).__name__}"
            return
        self.recv_state = "done"
        if self.case.get("close_after_receive", True) and not self.case.get("closer"):
            await self._do_close("recv")

    async def _closer(self):
        await self.gates["close"]
        await self._do_close("closer")

    async def _sender(self):
        await self.gates["send"]
        self.send_state = "running"
        try:
            if self.case.get("blocked_writes"):
                await self.ws.send_bytes(b"q" * 300)                   # crosses the transport's high-water mark
                await self.ws.send_bytes(b"r" * 70000)                 # and the writer's own drain threshold: parks here
            elif self.case.get("bigsend"):
                await self.ws.send_bytes(bytes(range(256)) * 120)      # > 16 KiB: compressed in the executor
            else:
                await self.ws.send_str("data-from-app")
            self.send_state = "sent"
        except asyncio.CancelledError:
            self.send_state = "cancelled"
            raise
        except Exception as e:  # noqa: BLE001
            self.send_state = f"raised:{type(e).__name__}"

    # ---------------------------------------------------------------- environment
    def _our_frames(self):
        if self.side == "server":
            raw = bytes(self.conn.client.received)
            i = raw.find(b"\r\n\r\n")
            raw = raw[i + 4:] if i >= 0 else b""
        else:
            raw = bytes(self.peer.buf)[self.client_sent_base:]
        return list(wsref.frames(raw))

    def _pump(self):
        """Our bytes travel to the peer without a choice; the peer notes our CLOSE."""
        if self.side == "server":
            if self.peer_tr.deliverable():
                self.peer_tr.deliver()
            if self.peer_tr.eof_deliverable():
                self.peer_tr.deliver_eof()
        else:
            if self.peer_tr.deliverable():
                self.peer_tr.deliver()
            if self.peer_tr.eof_deliverable():
                self.peer_tr.deliver_eof()
        if not self.seen_our_close and any(f[4] == 8 for f in self._our_frames() if not f[7]):
            self.seen_our_close = True

    def _peer_send(self, tok, quiet=False):
        if self.peer_tr.is_closing() or self.out_tr._lost_called:
            return
        if tok == "echo":
            if not self.seen_our_close or self.echoed:
                return
            self.echoed = True
            tok = "closenc" if self.case.get("nocode") else "close1000"
        if tok == "closenc" and self.peer_close_code is None:
            self.peer_close_code = -1          # no code given: any of 0 / 1005 / 1000 is a fair report, 1006 is not
            self.peer_close_in_time = quiet and self._listening(quiet) and not self.abnormal
        elif tok.startswith("close") and self.peer_close_code is None:
            self.peer_close_code = int(tok[5:] or 1000)
            # "in time": our side was still open to it (close() had not given up or returned, transport open)
            # "in time": before our side began to close, or while our close() was genuinely blocked waiting for it
            self.peer_close_in_time = quiet and self._listening(quiet) and not self.abnormal
        if tok.startswith("close") and not self.out_tr.is_closing() and not self.out_tr._lost_called:
            self.peer_close_before_our_transport_closed = True
            self.t_peer_close = self.loop.time()
        data = peer_frame(tok, masked=self.side == "server")
        if tok in ("garbage", "badutf8"):
            self.abnormal = True
            self.proto_error = True
            self.abnormal_judged = quiet and self._listening(quiet) and self.peer_close_code is None and self.close_t is None
        self.peer_tr.write(data)
        if tok == "trickle":
            # an honest peer on a slow link: the frame arrives in more reads than the reader's fragment cap
            while self.out_tr.deliverable():
                if not self.out_tr.deliver(2):
                    break
            return
        self.out_tr.deliver()

    def _listening(self, quiet):
        """Our side still reads what the peer sends: it has not started closing, or its close() sits blocked waiting for the reply."""
        if self.out_tr.is_closing() or self.close_state == "returned":
            return False
        return self.close_t is None or (quiet and self.close_state == "running")

    def _peer_fin(self, quiet=False):
        if self.peer_close_code is None:
            self.abnormal = True
            self.peer_fin = True
            self.abnormal_judged = quiet and self._listening(quiet) and self.close_t is None
        self.peer_tr.close()
        if self.out_tr.eof_deliverable():
            self.out_tr.deliver_eof()

    def _drop(self, quiet=False):
        self.faulted = True
        if not quiet:
            self.raced = True
        if not (self.peer_close_code is not None and self.seen_our_close):
            self.abnormal = True
            self.dropped = True
            self.abnormal_judged = quiet and self._listening(quiet) and self.peer_close_code is None and self.close_t is None
        self.out_tr.drop()

    def menu(self):
        m = []
        if self.ws is None:
            return m
        # quiet: nothing is queued - an event admitted now meets a settled system (no race with callbacks in flight)
        q = not self.loop.has_ready() and not self.loop.has_due_timer()
        if self.events and not self.peer_tr.is_closing() and not self.out_tr._lost_called:
            tok = self.events[0]
            if tok == "fin":
                m.append(("peer.fin", lambda q=q: (self.events.pop(0), self._peer_fin(q))))
            elif tok == "echo":
                if self.seen_our_close:
                    m.append(("peer.echo", lambda q=q: (self.events.pop(0), self._peer_send("echo", q))))
            else:
                m.append((f"peer.{tok}", lambda tok=tok, q=q: (self.events.pop(0), self._peer_send(tok, q))))
        for j in list(self.loop.exec_jobs)[:2]:
            m.append((f"exec.{self.execno.setdefault(id(j), len(self.execno))}", lambda j=j: self.loop.complete_exec_job(j)))
        if self.case.get("blocked_writes") and self.out_tr.kernel_full and not self.out_tr.is_closing():
            m.append(("net.unblock", self.out_tr.flush_kernel))      # the peer reads again
        for name in ("close", "send"):
            g = self.gates.get(name)
            if g is not None and not g.done():
                m.append((f"app.{name}", lambda g=g, q=q: (q or setattr(self, "raced", True), g.done() or g.set_result(None))))
        return m

    def faults(self):
        f = []
        if self.ws is None:
            return f
        fs = self.case.get("faults", ())
        if "drop" in fs and not self.out_tr._lost_called and not self.out_tr.is_closing():
            q = not self.loop.has_ready() and not self.loop.has_due_timer()
            f.append(("net.drop", lambda q=q: self._drop(q)))
        if "cancel" in fs:
            for name in ("recv", "close") + (("send",) if self.case.get("blocked_writes") else ()):
                t = self.tasks.get(name)
                if t is not None and not t.done():
                    f.append((f"cancel.{name}", lambda t=t, name=name: (setattr(self, "cancelled_" + name, True), setattr(self, "faulted", True), t.cancel())))
        return f

    def P(self, sig, msg):
        self.problems.append((f"C13:{self.side}:{sig}", msg))

    def monitor(self):
        self._pump()

    def quiescent(self):
        self._pump()
        if self.close_state == "running":
            self.close_waiting = True

    # ---------------------------------------------------------------- oracle
    def final(self):
        self._pump()
        ws = self.ws
        if ws is None:
            self.P("handshake-failed", "the websocket was never established")
            return ("no-ws",)
        case = self.case
        cancelled = getattr(self, "cancelled_recv", False) or getattr(self, "cancelled_close", False)
        # 1. nobody is stuck
        rt = self.tasks.get("recv")
        must_end = (self.peer_close_code is not None or self.peer_fin or self.dropped or self.abnormal or self.close_t is not None
                    or self.opts.get("heartbeat") or self.opts.get("receive_timeout"))
        if rt is not None and not rt.done() and must_end:
            where = "close()" if self.close_state == "running" else "receive()"
            self.P(f"blocked-forever:{where}", f"the receiver task is still blocked in {where} at t={self.loop.time():g}; received {self.received}")
        ctk = self.tasks.get("close")
        if ctk is not None and not ctk.done() and self.gates["close"].done():
            self.P("blocked-forever:close()", f"close() called at t={self.close_t} has not returned at t={self.loop.time():g}")
        stk = self.tasks.get("send")
        if stk is not None and not stk.done() and self.gates["send"].done():
            self.P("blocked-forever:send()", "send_str() never returned")
        # 1b. nobody is cancelled who was not cancelled
        if any(not getattr(self, "cancelled_close" if who == "closer" else "cancelled_recv", False) for who in self.close_cancelled_in):
            self.P("spurious-cancellation:close()", f"close() ended with CancelledError though only {[n for n in ('recv', 'send') if getattr(self, 'cancelled_' + n, False)]} had been cancelled")
        # 2. close() returns within the close timeout
        if self.close_dur is not None and self.close_dur > CLOSE_TIMEOUT + 1.0:
            self.P("close-exceeds-timeout", f"close() took {self.close_dur:g}s, close timeout is {CLOSE_TIMEOUT:g}s (peer timeline {case.get('timeline')})")
        # 3. wire discipline of our side
        frames = [f for f in self._our_frames() if not f[7]]
        closes = [i for i, f in enumerate(frames) if f[4] == 8]
        if len(closes) > 1:
            self.P("two-close-frames", f"{len(closes)} CLOSE frames were sent")
        if closes and any(f[4] in (0, 1, 2) for f in frames[closes[0] + 1:]):
            self.P("data-after-close", "a data frame was sent after our CLOSE frame")
        # 4. closed session => closed transport
        if ws.closed and not self.out_tr.is_closing():
            self.P("closed-but-transport-open", f"ws.closed is True but the transport is still open (close_code={ws.close_code}, received {self.received})")
        # 5. close code - judged only where the cause of the end is unambiguous: the decisive peer event met a settled
        #    session, no timer-driven option (heartbeat, receive timeout) and no cancellation took part
        timers = self.opts.get("heartbeat") or self.opts.get("receive_timeout") or self.timeline
        if ws.closed and not cancelled and not timers and not self.raced:
            code = ws.close_code
            if self.peer_close_in_time and not self.dropped:
                if self.peer_close_code == -1:
                    if code not in (0, 1000, 1005, None):
                        self.P(f"wrong-close-code:{code}:clean-handshake-without-code", f"the peer's CLOSE frame carried no status code and met a settled, listening session, but close_code is {code}; received {self.received}")
                elif code != self.peer_close_code:
                    self.P(f"wrong-close-code:{code}:clean-handshake", f"the peer's close frame (code {self.peer_close_code}) met a settled, listening session, but close_code is {code}; received {self.received}")
            elif self.abnormal_judged:
                ok = {1006} | ({1002, 1007} if self.proto_error else set())
                if code not in ok:
                    why = "peer-FIN-without-close-frame" if self.peer_fin else "connection-reset" if self.dropped else "protocol-error"
                    self.P(f"wrong-close-code:{code}:{why}", f"{why} while the session was open and idle: close_code is {code}, expected 1006; received {self.received}")
        # 5b. both close frames crossed while nothing else happened (no timer, no fault, no time passing): whatever the
        #     order of the tasks within the pass, the handshake is complete - never 1006
        if (ws.closed and not cancelled and not timers and self.raced and self.peer_close_code not in (None, -1) and closes
                and not self.dropped and not self.peer_fin and not self.abnormal and getattr(self, "t_peer_close", None) == 0 and self.close_t == 0 and not case.get("blocked_writes")
                and getattr(self, "peer_close_before_our_transport_closed", False)):
            if ws.close_code == 1006 or (self.close_dur or 0) >= CLOSE_TIMEOUT:
                self.P(f"wrong-close-code:{ws.close_code}:close-frames-crossed" if ws.close_code == 1006 else "close-waits-out-its-timeout:close-frames-crossed", f"our CLOSE frame went out and the peer's CLOSE (code {self.peer_close_code}) was delivered, with no fault, timer or time passing, but close_code is 1006; received {self.received}")
        for e in self.loop.collect_exceptions():
            msg = str(e.get("message"))
            if "Unclosed" in msg:
                continue
            self.P("loop-exception", f"{msg} {e.get('exception')!r}")
        return (self.recv_state, self.close_state, self.send_state, ws.closed, ws.close_code,
                tuple(t for t, _d in self.received)[:6], len(closes), self.out_tr.is_closing())

    def abnormal_before_close(self):
        return self.abnormal

    def peer_close_delivered(self):
        return any(t == "CLOSE" for t, _d in self.received) or self.close_state == "returned"

    def state(self):
        return None

    def close(self):
        for t in self.tasks.values():
            if not t.done():
                t.cancel()
        if self.side == "client":
            self.connector._close_immediately()


def factory(case, loop):
    return Scen(case, loop)


def cases(quick):
    out = []
    opt_sets = [
        {"autoclose": True, "autoping": True},
        {"autoclose": False, "autoping": True},
        {"autoclose": True, "autoping": False},
        {"autoclose": True, "autoping": True, "heartbeat": True},
        {"autoclose": True, "autoping": True, "receive_timeout": True},
        {"autoclose": False, "autoping": True, "heartbeat": True, "receive_timeout": True},
    ]
    peers = {
        "peer-closes-first": ["close1000"],
        "data-then-close": ["text", "ping", "close3000"],
        "echo-close": ["echo"],
        "echo-then-fin": ["echo", "fin"],
        "never-answers": [],
        "fin-without-close": ["text", "fin"],
        "garbage": ["text", "garbage"],
        "badutf8": ["badutf8", "echo"],
        "close-then-more": ["close1001", "text", "text"],
        "partial-frame-then-fin": ["partial", "fin"],
        "ping-flood-then-echo": ["ping", "ping", "echo"],
    }
    for side in ("server", "client"):
        for oi, opts in enumerate(opt_sets):
            for pname, peer in peers.items():
                for closer in (False, True):
                    if not closer and pname in ("echo-close", "echo-then-fin", "never-answers", "ping-flood-then-echo") and not (opts.get("heartbeat") or opts.get("receive_timeout")):
                        continue      # nobody would ever start closing: nothing to judge
                    name = f"{side}/o{oi}/{pname}/{'closer' if closer else 'recv-closes'}"
                    out.append({"name": name, "side": side, "opts": opts, "peer": peer, "closer": closer, "sender": closer and pname in ("echo-close", "never-answers", "data-then-close"),
                                "faults": ["drop", "cancel"]})
        # a CLOSE frame without status code, as first move and as answer to our close
        for oi in (0, 1):
            out.append({"name": f"{side}/o{oi}/peer-closes-nocode/recv-closes", "side": side, "opts": opt_sets[oi], "peer": ["closenc"], "closer": False, "sender": False, "faults": ["drop", "cancel"]})
            out.append({"name": f"{side}/o{oi}/peer-closes-nocode/closer", "side": side, "opts": opt_sets[oi], "peer": ["closenc"], "closer": True, "sender": False, "faults": ["drop", "cancel"]})
            out.append({"name": f"{side}/o{oi}/echo-nocode/closer", "side": side, "opts": opt_sets[oi], "peer": ["echo"], "nocode": True, "closer": True, "sender": False, "faults": ["drop", "cancel"]})
        # a large compressed message (deflated in the executor) in flight when close() is called
        for pname in ("echo-close", "never-answers"):
            out.append({"name": f"{side}/o0/{pname}/closer+bigsend", "side": side, "opts": opt_sets[0], "peer": peers[pname], "closer": True, "sender": True, "bigsend": True,
                        "faults": ["cancel"]})
        # one frame trickling in over more reads than the reader's fragment cap (1024 for max_msg_size=4096)
        out.append({"name": f"{side}/o0/trickled-frame/recv-closes", "side": side, "opts": opt_sets[0], "peer": ["trickle", "close1000"], "closer": False, "sender": False,
                    "max_msg_size": 4096, "faults": []})
        # the peer stops reading: a producer is parked in flow control when close() is called
        out.append({"name": f"{side}/o0/blocked-writes/closer", "side": side, "opts": opt_sets[0], "peer": [], "closer": True, "sender": True, "blocked_writes": True,
                    "faults": ["drop", "cancel"]})
        # chatty peers that never complete the closing handshake: close() must still honour its timeout
        for opts in opt_sets[:2]:
            for tl_name, tl in (("chatty-8s", [(t, "text") for t in (8, 16, 24, 32, 40)]), ("ping-8s", [(t, "ping") for t in (8, 16, 24, 32)]),
                                ("pong-9s", [(t, "pong") for t in (9, 18, 27)])):
                out.append({"name": f"{side}/{'ac' if opts['autoclose'] else 'noac'}/{tl_name}", "side": side, "opts": opts, "peer": [], "timeline": tl,
                            "closer": True, "sender": False, "faults": ["drop"], "close_after_receive": False})
    return out


def _job(job):
    case, bound = job
    part = Part()
    name = case["name"]

    def on_exec(ex):
        part.count("executions")
        part.count("transitions", ex.passes)
        part.outcome((name, ex.obs))
        part.state((name.split("/")[0], ex.obs))
        for sig, msg in ex.problems:
            part.violation(sig, msg[:500] + f" | case={name} schedule={explorer.schedule_of(ex)}", {"case": case, "prefix": explorer.prefix_of(ex)})
        if ex.capped:
            part.cap(f"pass horizon hit in {name}")

    # every scenario is explored completely up to bound 2 (cap 40000, never reached so far); the thorough tier then goes
    # on to bound 3 under a cap per scenario (272 scenarios: an uncapped bound 3 is more than an hour) - a second walk
    # that passes through the lower bounds again, so its executions are counted twice
    st = explorer.explore(factory, case, min(bound, 2), max_execs=40000, max_passes=2500, on_exec=on_exec)
    if st["truncated"]:
        part.cap(f"execution cap hit for {name} at bound {min(bound, 2)} (complete up to bound {st['completed_bound']}, {st['executions']} executions reported)")
    if bound > 2:
        st3 = explorer.explore(factory, case, bound, max_execs=1500, max_passes=2500, on_exec=on_exec)
        if st3["truncated"]:
            part.cap(f"execution cap 1500 hit for {name} at bound {bound} (complete up to bound {max(st3['completed_bound'], st['completed_bound'])})")
    if len(part.samples) < 1:
        part.sample({"case": name, "bound": bound, "executions": st["executions"]})
    return part


def run(ctx):
    ctx.rule = (
        "scenarios = side x option set (autoclose, autoping, heartbeat, receive timeout) x peer script (11 behaviours) x who closes, plus chatty-peer "
        "timelines; executions = all schedules with <= d deviations over peer frames / FIN / reset, application close and send from other tasks, "
        "cancellation of the receiver or closer, timers in virtual time; judged at quiescence after every timeout has passed; outcome distinct by "
        "(scenario, task end states, closed flag, close code, received types, CLOSE frames sent, transport closed)"
    )
    ctx.assumptions += [
        "real WebSocketResponse behind a real RequestHandler / real ClientSession.ws_connect over the in-memory connector; the peer is scripted",
        f"close timeout {CLOSE_TIMEOUT}s, receive timeout {RECV_TIMEOUT}s, heartbeat {HEARTBEAT}s; the clock never advances while callbacks are queued; 1 s grace on the close deadline",
        "a receiver that gets a terminal message (or a receive timeout) calls close() unless a separate closer task exists",
    ]
    bound = 2 if ctx.quick else 3
    cs = cases(ctx.quick)
    for part in ctx.pmap(_job, [(c, bound) for c in cs]):
        ctx.merge(part)
    ctx.notes["deviation_bound"] = bound
    ctx.notes["scenarios"] = len(cs)


def replay(case):
    prefix = [(tuple(l), c) for l, c in case["prefix"]]
    ex = explorer.run_one(factory, case["case"], prefix, max_passes=2500)
    return [{"sig": s, "msg": m, "case": case} for s, m in ex.problems]
