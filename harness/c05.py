"""C05 Server connection: each request answered once, in order, or connection closed.

SCHED engine: a real web.Application/RequestHandler on the in-memory wire is fed
a client byte stream (pipelines of 1..40 requests with and without bodies,
hostile inputs) under every schedule with <= d deviations: segmentation of the
inbound bytes, transport write-buffer full/drained, peer close/reset at any
boundary, timers; handler behaviour per request comes from a scripted alphabet.
An independent response framer cuts what the server wrote.  DESIGN §3 C05.
"""
from __future__ import annotations

import asyncio

from aiohttp import web
from aiohttp.web_protocol import MAX_MSG_QUEUE_SIZE

from mc import explorer
from mc.core import Part
from mc.server import AppConn
from refs import http1

PROPERTY = "C05"
explorer.PROP = PROPERTY

BEHAVIOURS = ["ret", "read", "httpexc", "exc", "timeout", "stream3", "park", "none", "readpark",
              "stream-httpexc", "prepare-httpexc", "stream-exc", "stream-other", "stream-noeof", "reuse",
              "buffered-chunked-exc", "buffered-compress-httpexc", "buffered-chunked-other"]
MIDFAIL = ("stream-httpexc", "prepare-httpexc", "stream-exc", "stream-other")


def req(i, kind="get", close=False):
    extra = b"Connection: close\r\n" if close else b""
    if kind == "get":
        return b"GET /%d HTTP/1.1\r\nHost: a\r\n%s\r\n" % (i, extra)
    if kind == "post":
        return b"POST /%d HTTP/1.1\r\nHost: a\r\n%sContent-Length: 5\r\n\r\nhello" % (i, extra)
    if kind == "chunked":
        return b"POST /%d HTTP/1.1\r\nHost: a\r\n%sTransfer-Encoding: chunked\r\n\r\n3\r\nabc\r\n2\r\nde\r\n0\r\n\r\n" % (i, extra)
    if kind == "big":
        return b"POST /%d HTTP/1.1\r\nHost: a\r\n%sContent-Length: 300\r\n\r\n" % (i, extra) + b"z" * 300
    if kind == "http10":
        return b"GET /%d HTTP/1.0\r\n\r\n" % i
    if kind == "http10ka":
        return b"GET /%d HTTP/1.0\r\nConnection: keep-alive\r\n\r\n" % i
    if kind == "expect":
        return b"POST /%d HTTP/1.1\r\nHost: a\r\nExpect: 100-continue\r\nContent-Length: 2\r\n\r\nok" % i
    if kind == "head":
        return b"HEAD /%d HTTP/1.1\r\nHost: a\r\n\r\n" % i
    raise KeyError(kind)


HOSTILE = {
    "cl+te": b"POST /0 HTTP/1.1\r\nHost: a\r\nContent-Length: 5\r\nTransfer-Encoding: chunked\r\n\r\n0\r\n\r\n",
    "bare-lf": b"GET /0 HTTP/1.1\nHost: a\r\n\r\n",
    "no-host": b"GET /0 HTTP/1.1\r\n\r\n",
    "bad-chunk": b"POST /0 HTTP/1.1\r\nHost: a\r\nTransfer-Encoding: chunked\r\n\r\nzz\r\n",
    # framing that turns bad after a good chunk: the handler may already be reading the body when it arrives
    "bad-chunk-later": b"POST /0 HTTP/1.1\r\nHost: a\r\nTransfer-Encoding: chunked\r\n\r\n5\r\nhello\r\nZZ\r\nxx\r\n",
    "bad-chunk-end-later": b"POST /0 HTTP/1.1\r\nHost: a\r\nTransfer-Encoding: chunked\r\n\r\n5\r\nhello\r\n5\r\nworldXX0\r\n\r\n",
    "bad-trailer-later": b"POST /0 HTTP/1.1\r\nHost: a\r\nTransfer-Encoding: chunked\r\n\r\n5\r\nhello\r\n0\r\nBad Trailer\r\n\r\n",
    "bad-target": b"GET http://[::1/ HTTP/1.1\r\nHost: a\r\n\r\n",
    "bad-port": b"GET http://h:abc/0 HTTP/1.1\r\nHost: a\r\n\r\n",
    "garbage": b"\x16\x03\x01\x02\x00\x01\x00\x01\xfc\x03\x03",
    "long-line": b"GET /" + b"a" * 9000 + b" HTTP/1.1\r\nHost: a\r\n\r\n",
    "short-body-then-next": b"POST /0 HTTP/1.1\r\nHost: a\r\nContent-Length: 3\r\n\r\nabGET /1 HTTP/1.1\r\nHost: a\r\n\r\n",
    "trailer-too-many": b"POST /0 HTTP/1.1\r\nHost: a\r\nTransfer-Encoding: chunked\r\n\r\n1\r\nx\r\n0\r\n" + b"T: v\r\n" * 200 + b"\r\n",
    "upgrade-declined": b"GET /0 HTTP/1.1\r\nHost: a\r\nUpgrade: websocket\r\nConnection: upgrade\r\n\r\nGET /1 HTTP/1.1\r\nHost: a\r\n\r\n",
    "connect": b"CONNECT a:80 HTTP/1.1\r\nHost: a\r\n\r\nrawbytes",
    "valid-then-garbage": b"GET /0 HTTP/1.1\r\nHost: a\r\n\r\nNOT HTTP\r\n\r\n",
    "valid-then-garbage2": b"GET /0 HTTP/1.1\r\nHost: a\r\n\r\nGET /1 HTTP/1.1\r\nHost: a\r\n\r\n\x00\x01\x02 bad\r\n\r\n",
}


class Scen:
    horizon = 400.0

    def __init__(self, case, loop):
        self.case = case
        self.loop = loop
        self.problems = []
        self.parked = {}
        self.shared_resp = None
        self.seen = []           # request ids the handler was entered for, in order
        self.stream = case["stream"]
        self.beh = case["behaviours"]
        self.faultset = set(case.get("faults", ()))
        app = web.Application()
        app.router.add_route("*", "/{id:.*}", self.handler)
        self.conn = AppConn(loop, app, **dict({"keepalive_timeout": 75, "lingering_time": 10.0}, **case.get("server_kw", {})))
        self.conn.st.set_write_buffer_limits(high=64, low=16)
        self.conn.send(self.stream)
        self.ref = http1.read_requests(self.stream, upgrades=())
        self.bounds = [m.end for m in self.ref.messages if m.end]
        # structural cut points inside a message: end of its head, middle of its body
        self.inner = []
        for m in self.ref.messages:
            he = self.stream.find(b"\r\n\r\n", m.start)
            if he >= 0 and m.end and he + 4 < m.end:
                self.inner += [he + 4, (he + 4 + m.end) // 2]
        self.peer_gone = False
        self.max_queue = 0

    # ---- application ------------------------------------------------------
    async def handler(self, request):
        i = len(self.seen)            # k-th request the application sees
        self.seen.append(request.path_qs)
        b = self.beh[i % len(self.beh)]
        hdr = {"X-Seq": str(i), "X-Target": request.raw_path.encode("utf-8", "surrogateescape").hex()}
        if b == "ret":
            return web.Response(text="r", headers=hdr)
        if b == "read":
            body = await request.read()
            return web.Response(text=f"read{len(body)}", headers=hdr)
        if b == "httpexc":
            raise web.HTTPForbidden(headers=hdr)
        if b == "exc":
            raise RuntimeError("boom")
        if b == "timeout":
            raise asyncio.TimeoutError()
        if b == "stream3":
            resp = web.StreamResponse(headers=hdr)
            await resp.prepare(request)
            for part in (b"one", b"two" * 30, b"three"):
                await resp.write(part)
            await resp.write_eof()
            return resp
        if b in ("stream-httpexc", "prepare-httpexc", "stream-exc", "stream-other", "stream-noeof"):
            # a response already under way when the handler changes its mind
            resp = web.StreamResponse(headers=hdr)
            await resp.prepare(request)
            if b != "prepare-httpexc":
                await resp.write(b"one")
            if b == "stream-exc":
                raise RuntimeError("boom after the head")
            if b == "stream-other":
                return web.Response(text="other", headers=hdr)
            if b == "stream-noeof":
                return resp
            raise web.HTTPForbidden(headers=hdr)
        if b.startswith("buffered-"):
            # a web.Response is prepared (its head is only buffered), then the handler fails or answers with another one
            resp = web.Response(text="first " * 20, headers=hdr)
            if "chunked" in b:
                resp.enable_chunked_encoding()
            else:
                resp.enable_compression(web.ContentCoding.gzip)
            await resp.prepare(request)
            if b.endswith("-exc"):
                raise RuntimeError("boom behind a buffered head")
            if b.endswith("-httpexc"):
                raise web.HTTPBadRequest(text="bad", headers=hdr)
            return web.Response(text="other", headers=hdr)
        if b == "reuse":
            # the application keeps one response object and returns it for every request
            if self.shared_resp is None:
                self.shared_resp = web.Response(text="shared")
            return self.shared_resp
        if b in ("park", "readpark"):
            if b == "readpark":
                await request.read()
            fut = self.loop.create_future()
            self.parked[i] = fut
            await fut
            return web.Response(text="p", headers=hdr)
        if b == "none":
            return None
        raise KeyError(b)

    # ---- environment --------------------------------------------------------
    def menu(self):
        c = self.conn
        m = []
        n = c.st.deliverable()
        if n:
            sent = len(self.stream) - n
            if self.case.get("drip"):
                # a sequential client with late bodies: by default each head arrives alone, its body afterwards
                cuts = sorted(b for b in set(self.bounds) | set(self.inner[::2]) if b > sent)
                if cuts and cuts[0] - sent < n:
                    m.append(("rx.drip", lambda k=cuts[0] - sent: c.deliver_to_server(k)))
            m.append(("rx.all", lambda: c.deliver_to_server()))
            nxt = next((b for b in self.bounds if b > sent), None)
            if nxt is not None and nxt - sent < n:
                m.append(("rx.msg", lambda k=nxt - sent: c.deliver_to_server(k)))
            inn = next((b for b in self.inner if b > sent), None)
            if inn is not None and inn - sent < n and inn != nxt:
                m.append(("rx.part", lambda k=inn - sent: c.deliver_to_server(k)))
            if n > 1:
                m.append(("rx.1", lambda: c.deliver_to_server(1)))
            if n > 40:
                m.append(("rx.33", lambda: c.deliver_to_server(33)))
        if c.st._buffer and c.st.kernel_full:
            m.append(("tx.flush", c.st.flush_kernel))
        for i, fut in sorted(self.parked.items()):
            if not fut.done():
                m.append((f"unpark.{i}", lambda f=fut: f.done() or f.set_result(None)))
        if c.st.eof_deliverable():
            m.append(("rx.eof", c.st.deliver_eof))
        return m

    def faults(self):
        c = self.conn
        f = []
        if "txblock" in self.faultset and not c.st.kernel_full and not c.st.is_closing():
            f.append(("tx.block", lambda: setattr(c.st, "kernel_full", True)))
        if not self.peer_gone and not c.st._lost_called:
            if "peerclose" in self.faultset:
                f.append(("peer.close", self._peer_close))
            if "peerdrop" in self.faultset:
                f.append(("peer.drop", self._peer_drop))
        return f

    def _peer_close(self):
        self.peer_gone = True
        self.conn.ct.close()

    def _peer_drop(self):
        self.peer_gone = True
        self.conn.st.drop()

    # ---- oracle --------------------------------------------------------------
    def P(self, sig, msg):
        self.problems.append((f"C05:{sig}", msg))

    def monitor(self):
        c = self.conn
        c.deliver_to_client()
        q = len(c.proto._messages)
        self.max_queue = max(self.max_queue, q)
        if q > MAX_MSG_QUEUE_SIZE + 1:
            self.P("queue-unbounded", f"{q} parsed-but-unhandled requests queued (limit {MAX_MSG_QUEUE_SIZE})")
        if c.escaped:
            e = c.escaped[0]
            self.P(f"exception-escapes-data_received:{type(e).__name__}", f"{e!r}")
            c.escaped.clear()

    def quiescent(self):
        """Nothing is running and the client owes nothing: every complete request
        that reached the server is answered, or the connection is closing, or a
        handler is still working on it."""
        c = self.conn
        c.deliver_to_client()
        if self.peer_gone or c.st.is_closing() or c.escaped:
            return
        fr = c.responses()
        finals = [r for r in fr.responses if not (100 <= r.status < 200)]
        delivered = len(self.stream) - len(c.ct.wire)
        # the server stopped reading with client bytes still in flight, nothing runs and no handler is parked on a
        # harness future: nobody is left who could resume reading - the connection is stuck
        if c.st._paused and c.ct.wire and not any(not f.done() for f in self.parked.values()):
            w = c.proto._waiter
            if w is not None and not w.done():
                self.P("reading-paused-forever", f"connection open at t={self.loop.time():g}: reading is paused, {len(c.ct.wire)} client bytes wait in flight, "
                       f"the request loop is idle waiting for input ({len(finals)} responses so far)")
        ref = http1.read_requests(self.stream[:delivered], upgrades=())
        complete = [m for m in ref.messages if m.complete]
        if ref.verdict in ("reject", "reject-body") or ref.pending_head and False:
            complete_n = len(complete) + 1      # the malformed one must be answered (4xx) too
        else:
            complete_n = len(complete)
        if ref.verdict.startswith("either") or ref.after_close or ref.opaque is not None:
            return
        task = c.proto._task_handler
        alive = task is not None and not task.done()
        if len(finals) < complete_n:
            if not alive:
                self.P("dead-connection", f"connection open at t={self.loop.time():g}, {complete_n} complete requests, {len(finals)} responses, no handler task")
            elif not any(not f.done() for f in self.parked.values()):
                w = c.proto._waiter
                if w is not None and not w.done():
                    self.P("unanswered-request", f"connection open at t={self.loop.time():g}: {complete_n} complete requests received, "
                           f"{len(finals)} answered, handler idle waiting for input")

    def final(self):
        c = self.conn
        self.monitor()
        fr = c.responses()
        rs = fr.responses
        finals = [r for r in rs if not (100 <= r.status < 200)]
        delivered = len(self.stream) - len(c.ct.wire)
        ref = http1.read_requests(self.stream[:delivered], upgrades=())
        n_req = len([m for m in ref.messages if m.complete or m.framing != "none"])
        n_heads = len(ref.messages)
        malformed_input = ref.verdict in ("reject", "reject-body")
        aborted = False
        if fr.malformed == "truncated body" and rs and c.st.is_closing():
            # a handler that fails (or changes its mind) after its response is under way: the server cannot take the
            # sent bytes back, so the one allowed outcome is this response cut short and the connection closed
            xs = rs[-1].header(b"X-Seq")
            aborted = xs is not None and self.beh[int(xs) % len(self.beh)] in MIDFAIL
        if fr.malformed and not self.peer_gone and not aborted:
            self.P("malformed-output", f"server output is not a sequence of well-formed responses: {fr.malformed}")
        # responses are answers to requests, in order
        allowed = n_heads + (1 if ref.verdict != "ok" or ref.pending_head else 0)
        if len(finals) > allowed:
            self.P("too-many-responses", f"{len(finals)} responses for {n_heads} requests")
        ids = []
        for k, r in enumerate(finals):
            xs = r.header(b"X-Seq")
            if xs is not None:
                ids.append(int(xs))
                # the k-th response answers the k-th request: the application saw it k-th ...
                if int(xs) != k:
                    self.P("response-order", f"response {k} was produced for the {int(xs)}-th request the application saw")
                # ... and it is the k-th request on the wire
                if k < len(ref.messages) and ref.verdict in ("ok", "reject", "reject-body") :
                    want = ref.messages[k].target.hex().encode()
                    if r.header(b"X-Target") != want:
                        self.P("response-for-wrong-request", f"response {k} answers target {bytes.fromhex(r.header(b'X-Target').decode())!r}, "
                               f"request {k} on the wire is {ref.messages[k].target!r}")
        task = c.proto._task_handler
        alive = task is not None and not task.done()
        open_ = not c.st.is_closing()
        if malformed_input and not self.peer_gone:
            if not finals or not (400 <= finals[-1].status < 500):
                # a handler that failed before the bad bytes were parsed may already have closed the connection
                own_failure = any(r.status >= 500 and self.beh[k % len(self.beh)] in ("exc", "timeout", "none") + MIDFAIL for k, r in enumerate(finals))
                if open_ or not own_failure:
                    self.P("malformed-not-4xx", f"unparsable input answered with {[r.status for r in finals]} (open={open_})")
            elif open_:
                self.P("malformed-not-closed", "4xx sent for unparsable input but the connection stays open")
        for e in self.loop.collect_exceptions():
            self.P("loop-exception", f"loop exception handler called: {e.get('message')} {e.get('exception')!r}")
        return (tuple(r.status for r in finals), tuple(ids), open_, alive, self.peer_gone, min(self.max_queue, 40))

    def state(self):
        return None

    def close(self):
        for f in self.parked.values():
            if not f.done():
                f.cancel()


def factory(case, loop):
    return Scen(case, loop)


def cases(quick):
    out = []
    F = ["peerclose", "peerdrop", "txblock"]
    pipe = lambda n, kind="get": b"".join(req(i, kind) for i in range(n))
    # small pipelines x handler behaviours
    for beh in BEHAVIOURS:
        out.append({"name": f"1get-{beh}", "stream": req(0), "behaviours": [beh], "faults": F})
        out.append({"name": f"post-{beh}-then-get", "stream": req(0, "post") + req(1), "behaviours": [beh, "ret"], "faults": F})
        out.append({"name": f"chunked-{beh}-then-get", "stream": req(0, "chunked") + req(1), "behaviours": [beh, "read"], "faults": F})
    out.append({"name": "3mixed", "stream": req(0, "post") + req(1, "chunked") + req(2), "behaviours": ["read", "stream3", "ret"], "faults": F})
    out.append({"name": "big-unread", "stream": req(0, "big") + req(1), "behaviours": ["ret", "ret"], "faults": F})
    out.append({"name": "big-read", "stream": req(0, "big") + req(1), "behaviours": ["read", "ret"], "faults": F})
    out.append({"name": "close-then-more", "stream": req(0, close=True) + req(1), "behaviours": ["ret"], "faults": F})
    out.append({"name": "http10", "stream": req(0, "http10") + req(1), "behaviours": ["ret"], "faults": F})
    out.append({"name": "http10ka", "stream": req(0, "http10ka") + req(1, "http10ka"), "behaviours": ["ret"], "faults": F})
    out.append({"name": "expect", "stream": req(0, "expect") + req(1), "behaviours": ["read", "ret"], "faults": F})
    out.append({"name": "head", "stream": req(0, "head") + req(1), "behaviours": ["ret"], "faults": F})
    up = lambda i: b"GET /%d HTTP/1.1\r\nHost: a\r\nUpgrade: websocket\r\nConnection: upgrade\r\n\r\n" % i
    out.append({"name": "upgrade-declined-twice", "stream": up(0) + req(1) + up(2) + req(3), "behaviours": ["ret"], "faults": F})
    out.append({"name": "upgrade-declined-twice-last", "stream": up(0) + req(1) + up(2), "behaviours": ["ret"], "faults": F})
    out.append({"name": "upgrade-declined-thrice", "stream": up(0) + req(1, "post") + up(2) + up(3), "behaviours": ["ret", "read"], "faults": F})
    out.append({"name": "upgrade-declined-parked", "stream": up(0) + req(1) + up(2) + req(3, "post"), "behaviours": ["park", "ret", "park", "read"], "faults": F})
    out.append({"name": "upgrade-declined-parked-big", "stream": up(0) + req(1, "big") + req(2), "behaviours": ["park", "read", "ret"],
                "faults": F, "server_kw": {"read_bufsize": 64}})
    # an upgrade request that carries a body, declined: by a handler that ignores the body or reads it
    upb = lambda i: b"POST /%d HTTP/1.1\r\nHost: a\r\nUpgrade: websocket\r\nConnection: upgrade\r\nContent-Length: 6\r\n\r\nabcdef" % i
    upc = lambda i: b"POST /%d HTTP/1.1\r\nHost: a\r\nUpgrade: websocket\r\nConnection: upgrade\r\nTransfer-Encoding: chunked\r\n\r\n2\r\nab\r\n4\r\ncdef\r\n0\r\n\r\n" % i
    for nm, mk in (("cl", upb), ("chunked", upc)):
        for beh in ("ret", "read", "park"):
            out.append({"name": f"upgrade-body-{nm}-declined-{beh}", "stream": mk(0) + req(1) + req(2, "post"), "behaviours": [beh, "ret", "read"], "faults": F})
    out.append({"name": "reuse-response-object", "stream": req(0) + req(1) + req(2), "behaviours": ["reuse"], "faults": F})
    # server options nobody sets in tests: no lingering, small read buffer; the unread remainder is larger than the buffer
    for beh in ("ret", "park"):
        out.append({"name": f"nolinger-big-unread-{beh}", "stream": req(0, "big") + req(1) + req(2, "post"), "behaviours": [beh, "ret", "read"], "faults": F,
                    "server_kw": {"lingering_time": 0, "read_bufsize": 64}})
        out.append({"name": f"shortlinger-big-unread-{beh}", "stream": req(0, "big") + req(1), "behaviours": [beh, "ret"], "faults": F,
                    "server_kw": {"lingering_time": 2.0, "read_bufsize": 64}})
    out.append({"name": "post-unread-then-2", "stream": req(0, "post") + req(1) + req(2), "behaviours": ["ret"], "faults": F})
    out.append({"name": "park-first-of-3", "stream": pipe(3), "behaviours": ["park", "ret", "read"], "faults": F})
    # around the queue limit
    for n in (31, 32, 33, 40):
        out.append({"name": f"pipeline{n}-park0", "stream": pipe(n), "behaviours": ["park"] + ["ret"] * 63, "faults": [], "bound": 1})
    out.append({"name": "pipeline40-bodies", "stream": pipe(40, "post"), "behaviours": ["readpark"] + ["read"] * 63, "faults": [], "bound": 1})
    # history on one kept-alive connection: many requests, each dispatched before its body has arrived
    for n in (34, 70):
        out.append({"name": f"drip{n}-late-bodies", "stream": pipe(n, "post"), "behaviours": ["read"], "faults": [], "bound": 1, "drip": True})
    out.append({"name": "drip34-late-chunked", "stream": pipe(34, "chunked"), "behaviours": ["read", "ret"], "faults": [], "bound": 1, "drip": True})
    for name, s in HOSTILE.items():
        out.append({"name": "hostile-" + name, "stream": s, "behaviours": ["read", "ret"], "faults": ["peerclose"]})
        out.append({"name": "after-valid-" + name, "stream": req(0) + s.replace(b"/0 ", b"/1 "), "behaviours": ["ret", "read"], "faults": []})
    return out


# ---------------------------------------------------------------- an accepted upgrade, pipelined
def upgrade_behind_slow(part, split, frame_with_body, release, reads_body, framing):
    """GET /slow (its handler waits), then an upgrade request *with a body* whose bytes arrive in two reads, the
    WebSocket frame right behind the body; /slow is released before or after the second read.  The upgrade handler
    accepts: every byte behind the declared body is the WebSocket's, and the one text message must reach it."""
    from mc.vloop import VLoop

    case = {"kind": "upgrade-behind-slow", "args": [split, frame_with_body, release, reads_body, framing]}
    tag = f"body split at {split}, frame {'with' if frame_with_body else 'after'} the rest of the body, /slow released {release} it, handler {'reads' if reads_body else 'ignores'} the {framing} body"
    loop = VLoop().hold()
    seen = {}
    try:
        gate = loop.create_future()

        async def slow(request):
            await gate
            return web.Response(text="slow done")

        async def wsh(request):
            if reads_body:
                seen["body"] = await request.read()
            ws = web.WebSocketResponse(timeout=1.0)
            await ws.prepare(request)
            msg = await ws.receive(timeout=5.0)
            seen["ws"] = (msg.type.name, msg.data)
            await ws.close()
            return ws

        app = web.Application()
        app.router.add_get("/slow", slow)
        app.router.add_route("*", "/ws", wsh)
        conn = AppConn(loop, app)
        body = b"abcde"
        if framing == "length":
            wire_body = body
            fr = b"Content-Length: 5\r\n"
        else:
            wire_body = b"2\r\nab\r\n3\r\ncde\r\n0\r\n\r\n"
            fr = b"Transfer-Encoding: chunked\r\n"
        head = (b"POST /ws HTTP/1.1\r\nHost: x\r\nConnection: Upgrade\r\nUpgrade: websocket\r\n"
                b"Sec-WebSocket-Key: dGhlIHNhbXBsZSBub25jZQ==\r\nSec-WebSocket-Version: 13\r\n" + fr + b"\r\n")
        frame = b"\x81\x82\x00\x00\x00\x00hi"
        k = min(split, len(wire_body))

        def feed(data):
            conn.send(data)
            conn.deliver_to_server()
            conn.settle()

        feed(b"GET /slow HTTP/1.1\r\nHost: x\r\n\r\n")
        feed(head + wire_body[:k])
        if release == "before":
            gate.set_result(None)
            conn.settle()
        feed(wire_body[k:] + (frame if frame_with_body else b""))
        if release == "after":
            gate.set_result(None)
            conn.settle()
        if not frame_with_body:
            feed(frame)
        conn.settle(8.0)
        part.count("executions")
        part.count("transitions", 5)
        part.outcome(("upgrade-behind-slow", seen.get("ws"), seen.get("body")))
        if conn.escaped:
            part.violation("C05:upgrade-behind-slow:exception-escapes", f"{tag}: {conn.escaped[:1]!r}", case)
        if b"slow done" not in bytes(conn.client.received):
            part.violation("C05:upgrade-behind-slow:first-response-missing", f"{tag}: /slow was not answered", case)
        if reads_body and seen.get("body") != body:
            part.violation("C05:upgrade-behind-slow:body-differs", f"{tag}: the handler read {seen.get('body')!r}", case)
        if seen.get("ws") != ("TEXT", "hi"):
            part.violation("C05:upgrade-behind-slow:frame-not-delivered",
                           f"{tag}: the WebSocket message behind the body was not delivered to the accepted upgrade (got {seen.get('ws')!r}; "
                           f"server wrote {bytes(conn.client.received)[-80:]!r})", case)
        for e in loop.collect_exceptions():
            part.violation("C05:upgrade-behind-slow:loop-exception", f"{tag}: {e.get('message')} {e.get('exception')!r}", case)
    finally:
        loop.finish()


def _job_upgrade(_job):
    part = Part()
    for framing in ("length", "chunked"):
        n = 5 if framing == "length" else 20
        for split in range(0, n + 1):
            for fwb in (True, False):
                for release in ("before", "after"):
                    for reads in (True, False):
                        upgrade_behind_slow(part, split, fwb, release, reads, framing)
    part.state(("upgrade-behind-slow",))
    return part


def _job(job):
    if job[0] == "upgrade-behind-slow":
        return _job_upgrade(job)
    case, bound, max_execs = job
    part = Part()
    name = case["name"]

    def on_exec(ex):
        part.count("executions")
        part.count("transitions", ex.passes)
        part.outcome((name, ex.obs))
        part.state((name, ex.obs))
        for sig, msg in ex.problems:
            part.violation(sig, msg + f" | case={name} schedule={explorer.schedule_of(ex)}",
                           {"case": case, "prefix": explorer.prefix_of(ex)})
        if ex.capped:
            part.cap(f"pass horizon hit in {name}")

    st = explorer.explore(factory, case, bound, max_execs=max_execs, max_passes=3000, on_exec=on_exec)
    part.count("choice_points", st["choice_points"])
    if st["truncated"]:
        part.cap(f"execution cap {max_execs} hit for {name} at bound {bound} (complete up to bound {st['completed_bound']}, {st['executions']} executions reported)")
    if len(part.samples) < 1:
        part.sample({"case": name, "bound": bound, "executions": st["executions"], "stream": case["stream"][:120]})
    return part


def run(ctx):
    ctx.rule = (
        "executions = all schedules with <= d deviations per scenario (client stream x handler behaviours): inbound "
        "segmentation (all / up to next message / up to head end or body middle / 1 byte / 33 bytes), write buffer full+flush, peer close/reset at any pass, "
        "timer before I/O, several events per pass; oracle = independent response framer + lifecycle invariants per pass and "
        "at quiescence; outcome distinct by (scenario, statuses, ids, open, handler alive, peer gone, peak queue)"
    )
    ctx.assumptions += [
        "real web.Application + RequestHandler through AppRunner on the in-memory wire; access log off by logging.disable",
        "keepalive_timeout=75, lingering_time=10, transport write high-water 64 bytes so pause_writing is reachable",
    ]
    bound = 2 if ctx.quick else 3
    cs = cases(ctx.quick)
    jobs = [(c, min(bound, c.get("bound", bound)) if ctx.quick else c.get("bound", 1) + 1 if "bound" in c else bound, 60000) for c in cs]
    jobs.append(("upgrade-behind-slow",))
    for part in ctx.pmap(_job, jobs):
        ctx.merge(part)
    ctx.notes["deviation_bound"] = bound
    ctx.notes["scenarios"] = len(cs)


def replay(case):
    if case.get("kind") == "upgrade-behind-slow":
        part = Part()
        upgrade_behind_slow(part, *case["args"])
        return part.violations
    c = case["case"]
    prefix = [(tuple(l), ch) for l, ch in case["prefix"]]
    ex = explorer.run_one(factory, c, prefix, max_passes=3000)
    return [{"sig": s, "msg": m, "case": case} for s, m in ex.problems]
