"""C19 Multipart codec round trip, truthful size, and reader termination.

STREAM engine (DESIGN §3 C19):

roundtrip    part lists (<= 2, 3 in thorough) over a content x transfer-encoding x
             content-encoding x header alphabet (boundary look-alikes, CR/LF tails, sizes around
             the 8192-byte chunk) are written by the real `MultipartWriter` / `FormData`, the
             bytes are fed to a real `StreamReader` under every single cut (small bodies) or every
             cut in the window around each boundary, and read back by the real `MultipartReader`
             through read(decode) / read_chunk(n) / readline / release; parts, headers and content
             must equal what was written; `size` must equal the bytes written.
termination  every single-byte deletion, duplication and substitution (6-byte alphabet) and every
             truncation of small valid bodies, then EOF: the reader must finish - with parts or an
             error - within a step horizon, never loop, never raise a non-error BaseException.
limits       over-long and over-many part header lines are refused while reading.
"""
from __future__ import annotations

import asyncio
import base64
import itertools
import zlib

from aiohttp import FormData, MultipartReader, MultipartWriter, hdrs
from aiohttp.base_protocol import BaseProtocol
from aiohttp.streams import StreamReader
from multidict import CIMultiDict

from mc.core import Part
from mc.vloop import VLoop

PROPERTY = "C19"
B = "BOUND"


class _W:
    """Collecting AbstractStreamWriter stand-in (the part writer only needs write())."""

    def __init__(self):
        self.buf = bytearray()

    async def write(self, chunk):
        self.buf += bytes(chunk)

    async def write_eof(self, chunk=b""):
        self.buf += bytes(chunk)

    async def drain(self):
        pass


class _Tr:
    def pause_reading(self):
        pass

    def resume_reading(self):
        pass

    def is_closing(self):
        return False


class _NoParser:
    def pause_reading(self):
        pass


class _Proto(BaseProtocol):
    def __init__(self, loop):
        super().__init__(loop, parser=_NoParser())       # everything is fed at once: pausing has nothing to hold back
        self.transport = _Tr()      # "connected"

    def data_received(self, data):
        pass


CONTENT = {
    "empty": b"",
    "a": b"a",
    "crlf": b"\r\n",
    "crlf--": b"\r\n--",
    "lookalike-mid": b"ab--" + B.encode() + b"--cd\r\n-" + B.encode(),      # the delimiter string, but never at a line start
    "dashes": b"--",
    # lines that begin like the delimiter line but are not it
    "lookalike-line": b"line1\r\n--" + B.encode() + b"XYZ\r\nline3",
    "lookalike-only": b"--" + B.encode() + b"XYZ",
    "lookalike-close": b"a\r\n--" + B.encode() + b"--X",
    "almost": b"x\r\n--" + B.encode()[:-1],
    "tail-cr": b"abc\r",
    "tail-crlf": b"abc\r\n",
    "tail-lfcr": b"abc\n\r",
    "lines": b"line one\r\nline two\r\n\r\nline four",
    "binary": bytes(range(256)),
    "8190": b"k" * 8190,
    "8192": b"k" * 8192,
    "8194": (b"0123456789abcdef" * 513)[:8194],
    "16384+1": b"z" * 16385,
    "boundary-at-chunk-edge": b"y" * (8192 - 4) + b"\r\n--" + B.encode()[:2] + b"tail",
    "300000": b"compressible " * 23077,          # decodes to more than one 256 KiB decompression step
}
TEXTS = {"text": "héllo wörld\r\nsecond line", "text-long": "é" * 3000}
ENC = [None, "base64", "quoted-printable", "binary"]
CENC = [None, "gzip", "deflate"]
HEADERS = {
    "plain": {},
    "custom": {"X-Custom": "v; a=b"},
    "nonascii": {"X-Non": "välue €"},
}
DISP = [None, ("form-data", {"name": "field"}), ("form-data", {"name": "fi eld", "filename": 'we"ird name%41.txt'}),
        ("attachment", {"filename": "fïle€.bin"})]


def build(parts, subtype="mixed", boundary=B):
    mp = MultipartWriter(subtype, boundary=boundary)
    want = []
    for (cname, enc, cenc, hname, disp) in parts:
        data = CONTENT[cname] if cname in CONTENT else TEXTS[cname]
        h = CIMultiDict(HEADERS[hname])
        if enc:
            h[hdrs.CONTENT_TRANSFER_ENCODING] = enc
        if cenc:
            h[hdrs.CONTENT_ENCODING] = cenc
        p = mp.append(data, h)
        if disp is not None:
            p.set_content_disposition(disp[0], **disp[1])
        raw = data.encode() if isinstance(data, str) else data
        want.append({"content": raw, "headers": dict(HEADERS[hname]), "disp": disp, "enc": enc, "cenc": cenc})
    return mp, want


def serialize(loop, payload):
    w = _W()
    t = loop.create_task(payload.write(w))
    n = 0
    while not t.done() and n < 2000:
        loop.drain(200)
        while loop.exec_jobs:
            loop.complete_exec_job(0)
        n += 1
    if not t.done():
        t.cancel()
        loop.drain(10)
        raise RuntimeError("writer did not finish")
    t.result()
    return bytes(w.buf)


async def read_parts(reader, api, chunk):
    out = []
    while True:
        part = await reader.next()
        if part is None:
            break
        if isinstance(part, MultipartReader):
            if api == "skipnested":
                # the application is not interested in the nested body: straight on to the next outer part
                out.append({"nested": None})
                continue
            if api == "nested1":
                # only the first inner part is read, then the application moves on
                first = await part.next()
                inner = []
                if first is not None and not isinstance(first, MultipartReader):
                    inner.append({"headers": dict(first.headers), "name": first.name, "filename": first.filename,
                                  "content": bytes(await first.read(decode=True))})
                out.append({"nested": inner, "partial": True})
                continue
            inner = await read_parts(part, api, chunk)
            out.append({"nested": inner})
            continue
        item = {"headers": dict(part.headers), "name": part.name, "filename": part.filename}
        if api == "read":
            item["content"] = bytes(await part.read(decode=True))
        elif api == "chunk":
            data = bytearray()
            while not part.at_eof():
                data += await part.read_chunk(chunk)
            item["content"] = bytes(part.decode(bytes(data))) if data or True else b""
        elif api == "line":
            data = bytearray()
            empties = 0
            while True:
                line = await part.readline()
                if not line:
                    # b"" is the end of the part (at_eof() true), an empty last line, or - on a truncated stream -
                    # what readline() keeps returning without at_eof() ever turning true
                    empties += 1
                    if part.at_eof() or empties > 3:
                        break
                    continue
                empties = 0
                data += line
            item["raw"] = bytes(data)
        elif api == "release":
            await part.release()
            item["content"] = None
        elif api == "line1":
            # one line is looked at, then the application moves on to the next part
            item["first"] = bytes(await part.readline())
        elif api == "chunk1":
            item["first"] = bytes(await part.read_chunk(chunk)) if not part.at_eof() else b""
        elif api in ("skipnested", "nested1"):
            item["content"] = bytes(await part.read(decode=True))
        out.append(item)
    return out


def run_reader(loop, ctype, body, cuts, api, chunk=8192, horizon=4000, **rkw):
    """Feed `body` cut at `cuts` to a StreamReader while a MultipartReader task reads it."""
    from mc import core
    try:
        with core.deadline(core.EXEC_BUDGET_S):
            return _run_reader(loop, ctype, body, cuts, api, chunk, horizon, **rkw)
    except core.ExecutionTimeout:
        return {"hang": True, "steps": -1}


def _run_reader(loop, ctype, body, cuts, api, chunk=8192, horizon=4000, **rkw):
    proto = _Proto(loop)
    stream = StreamReader(proto, 2 ** 16, loop=loop)
    reader = MultipartReader({hdrs.CONTENT_TYPE: ctype}, stream, **rkw)
    t = loop.create_task(read_parts(reader, api, chunk))
    segs = []
    prev = 0
    for c in list(cuts) + [len(body)]:
        segs.append(body[prev:c])
        prev = c
    steps = 0
    for s in segs:
        if s:
            stream.feed_data(s)
        steps += loop.drain(horizon)
        while loop.exec_jobs:
            loop.complete_exec_job(0)
            steps += loop.drain(horizon)
        if t.done():
            break
    if not t.done():
        stream.feed_eof()
        steps += loop.drain(horizon)
        while loop.exec_jobs and not t.done():
            loop.complete_exec_job(0)
            steps += loop.drain(horizon)
    if not t.done():
        t.cancel()
        loop.drain(20)
        return {"hang": True, "steps": steps}
    try:
        return {"parts": t.result(), "steps": steps}
    except asyncio.CancelledError:
        return {"error": "CancelledError", "steps": steps}
    except BaseException as e:  # noqa: BLE001
        if type(e).__name__ == "ExecutionTimeout":
            raise
        return {"error": type(e).__name__, "msg": str(e)[:80], "base": not isinstance(e, Exception), "steps": steps}


def compare(part, label, want, got, api, case):
    if "hang" in got:
        part.violation("C19:roundtrip:reader-hangs", f"{label}: reader did not finish", case)
        return
    if "error" in got:
        part.violation(f"C19:roundtrip:reader-error:{got['error']}", f"{label} ({api}): {got.get('msg')}", case)
        return
    parts = got["parts"]
    if len(parts) != len(want):
        part.violation("C19:roundtrip:part-count", f"{label} ({api}): wrote {len(want)} parts, read {len(parts)}", case)
        return
    for i, (w, g) in enumerate(zip(want, parts)):
        if "nested" in w:
            if g.get("nested") is None:
                continue
            if g.get("partial"):
                compare(part, label + f"/nested{i}", w["nested"][:len(g["nested"])], {"parts": g["nested"]}, "read", case)
                continue
            compare(part, label + f"/nested{i}", w["nested"], {"parts": g.get("nested", [])}, api, case)
            continue
        if api in ("line1", "chunk1") and not w["enc"] and not w["cenc"]:
            first = g.get("first") or b""
            if not w["content"].startswith(first) or (w["content"] and not first):
                part.violation(f"C19:roundtrip:content-differs:{api}", f"{label} part {i} ({api}): wrote {w['content'][:24]!r}.., first piece read {first[:24]!r}", case)
        if api in ("read", "chunk", "skipnested", "nested1") and g.get("content") != w["content"]:
            gc = g.get("content") or b""
            part.violation(f"C19:roundtrip:content-differs:{api}", f"{label} part {i} ({api}): wrote {len(w['content'])} bytes {w['content'][:24]!r}.., read {len(gc)} bytes {gc[:24]!r}..", case)
        if api == "line" and not w["enc"] and not w["cenc"] and g.get("raw") != w["content"]:
            gr = g.get("raw") or b""
            part.violation("C19:roundtrip:content-differs:readline", f"{label} part {i}: wrote {w['content'][-12:]!r} (len {len(w['content'])}), readline gave {gr[-12:]!r} (len {len(gr)})", case)
        for k, v in w["headers"].items():
            if g["headers"].get(k) != v:
                part.violation("C19:roundtrip:header-differs", f"{label} part {i}: header {k}={v!r} read back as {g['headers'].get(k)!r}", case)
        if w["disp"] is not None:
            params = w["disp"][1]
            from urllib.parse import unquote
            if "name" in params and g["name"] != params["name"] and unquote(g["name"] or "") != params["name"]:
                part.violation("C19:roundtrip:name-differs", f"{label} part {i}: name {params['name']!r} read back as {g['name']!r}", case)
            if "filename" in params and g["filename"] != params["filename"] and unquote(g["filename"] or "") != params["filename"]:
                part.violation("C19:roundtrip:filename-differs", f"{label} part {i}: filename {params['filename']!r} read back as {g['filename']!r}", case)


def cuts_for(body):
    n = len(body)
    if n <= 400:
        return [()] + [(i,) for i in range(1, n)] + [tuple(range(1, n))]
    pts = set()
    marker = b"--" + B.encode()
    i = body.find(marker)
    while i >= 0:
        for d in range(-6, len(marker) + 6):
            if 0 < i + d < n:
                pts.add(i + d)
        i = body.find(marker, i + 1)
    for k in (8190, 8191, 8192, 8193, 8194, 16384, 16385):
        for base in (0, body.find(b"\r\n\r\n") + 4):
            if 0 < base + k < n:
                pts.add(base + k)
    pts = sorted(pts)
    return [()] + [(p,) for p in pts] + [tuple(pts)]


def _job_roundtrip(job):
    specs = job
    part = Part()
    for spec in specs:
        loop = VLoop().hold()
        try:
            case = {"kind": "roundtrip", "spec": spec}
            try:
                if spec[0] == "mp":
                    mp, want = build(spec[1])
                elif spec[0] == "nested":
                    inner, wi = build(spec[1], boundary="INNER")
                    outer = MultipartWriter("mixed", boundary=B)
                    outer.append(inner)
                    outer.append(b"after")
                    mp, want = outer, [{"nested": wi}, {"content": b"after", "headers": {}, "disp": None, "enc": None, "cenc": None}]
                else:
                    fd = FormData(quote_fields=spec[1])
                    want = []
                    for (name, value, fname) in spec[2]:
                        fd.add_field(name, value, filename=fname)
                        raw = value.encode() if isinstance(value, str) else value
                        if name == "_charset_":
                            continue        # the HTML default-charset field: consumed by the reader, not delivered as a part
                        want.append({"content": raw, "headers": {}, "disp": ("form-data", {"name": name, **({"filename": fname} if fname else {})}), "enc": None, "cenc": None})
                    mp = fd()
                    mp._boundary = B.encode()           # noqa: SLF001
            except Exception as e:  # noqa: BLE001
                part.count("builder_refused")
                continue
            try:
                size = mp.size
                body = serialize(loop, mp)
            except Exception as e:  # noqa: BLE001
                why = ""
                if spec[0] == "form" and spec[1] and any(not n.isascii() for (n, _v, _f) in spec[2]):
                    why = ":formdata-quoted-nonascii-field-name"
                part.violation(f"C19:writer-raises:{type(e).__name__}{why}", f"{spec}: {e!r}", case)
                continue
            if size is not None and size != len(body):
                part.violation("C19:size-differs", f"{spec}: size {size}, written {len(body)}", case)
            # the other way to get the body out of the writer: as_bytes() on a fresh, equal writer
            if spec[0] == "mp" and all(len(CONTENT.get(p[0], b"")) < 20000 for p in spec[1]):
                try:
                    mp2, _w2 = build(spec[1])
                    t = loop.create_task(mp2.as_bytes())
                    for _ in range(200):
                        loop.drain(200)
                        while loop.exec_jobs:
                            loop.complete_exec_job(0)
                        if t.done():
                            break
                    body2 = t.result()
                except Exception as e:  # noqa: BLE001
                    part.violation(f"C19:as_bytes-raises:{type(e).__name__}", f"{spec}: {e!r}", dict(case, api="as_bytes"))
                else:
                    got2 = run_reader(loop, mp.headers[hdrs.CONTENT_TYPE], body2, (), "read", 8192)
                    part.count("executions")
                    compare(part, f"{spec} via as_bytes()", want, got2, "as_bytes", dict(case, cuts=[], api="as_bytes", chunk=0))
            ctype = mp.headers[hdrs.CONTENT_TYPE] if spec[0] != "form" else f"multipart/form-data; boundary={B}"
            if spec[0] == "nested":
                ctype = f"multipart/mixed; boundary={B}"
            part.state(repr(spec))
            apis = [("read", 0), ("chunk", 64), ("chunk", 8192), ("line", 0), ("release", 0), ("line1", 0), ("chunk1", 16)]
            if spec[0] == "nested":
                apis += [("skipnested", 0), ("nested1", 0)]
            for api, chunk in apis:
                plain = all(not w.get("enc") and not w.get("cenc") for w in want if "nested" not in w)
                if api == "line" and not plain:
                    continue
                if api in ("line", "line1") and any(len(w.get("content") or b"") > 100000 and b"\n" not in w["content"] for w in want if "nested" not in w):
                    continue        # one line longer than the reader's line limit: refusing it is the configured behaviour
                many = len(spec[1] if spec[0] != "form" else spec[2]) > 10
                for cuts in ([(), (len(body) // 2,), tuple(range(1, len(body), 97))] if many        # what is varied there is the number of parts
                             else cuts_for(body) if api in ("read", "line") or chunk == 64 else [(), tuple(range(1, len(body)))] if len(body) <= 400 else [()]):
                    got = run_reader(loop, ctype, body, cuts, api, chunk or 8192)
                    part.count("executions")
                    part.count("transitions", len(cuts) + 1)
                    n0 = len(part.violations)
                    compare(part, f"{spec} cuts={list(cuts)[:3]}", want, got, api if api != "chunk" else "chunk", dict(case, cuts=list(cuts), api=api, chunk=chunk))
                    part.outcome((api, "error" in got, len(got.get("parts", ()))))
                    if len(part.violations) > n0:
                        break
        finally:
            loop.finish()
    if specs:
        part.sample({"section": "roundtrip", "spec": specs[len(specs) // 2]})
    return part


def part_specs(quick):
    singles = []
    for c in CONTENT:
        for enc in ENC:
            for cenc in CENC:
                if enc == "quoted-printable":
                    continue            # quoted-printable is for text
                if quick and c in ("16384+1", "8190", "8194") and (enc or cenc):
                    continue
                singles.append((c, enc, cenc, "plain", None))
    for t in TEXTS:
        for enc in (None, "quoted-printable", "base64"):
            singles.append((t, enc, None, "plain", None))
    for h in HEADERS:
        for d in DISP:
            singles.append(("a", None, None, h, d))
    return singles


def specs(quick):
    singles = part_specs(quick)
    out = [("mp", [s]) for s in singles]
    core = [s for s in singles if s[0] in ("empty", "a", "crlf--", "lookalike-mid", "lookalike-line", "almost", "tail-cr", "lines", "8192", "boundary-at-chunk-edge") and not s[2]
            and s[1] in (None, "base64") and s[3] == "plain" and s[4] is None]
    out += [("mp", [a, b]) for a in core for b in core]
    # encoder state must not travel from one part to the next: every ordered pair of (transfer, content) encodings
    encs = [(e, c) for e in (None, "base64", "quoted-printable") for c in (None, "gzip", "deflate")]
    for (e1, c1) in encs:
        for (e2, c2) in encs:
            if (e1, c1) != (None, None) and (e2, c2) != (None, None) and (e1, c1) != (e2, c2):
                out.append(("mp", [("lines", e1, c1, "plain", None), ("a", e2, c2, "plain", None)]))
    if not quick:
        small = [s for s in core if s[0] in ("empty", "a", "crlf--", "almost", "tail-cr")]
        out += [("mp", [a, b, c]) for a in small for b in small for c in small]
    out += [("nested", [s]) for s in core[:8]]
    # many parts in one body: what the reader counts or keeps per part must start afresh with each part
    # (70 parts x 2-3 header lines is more than max_headers=128 lines in total, far less per part)
    one = [s for s in singles if s[0] == "a" and s[1] is None and s[2] is None and s[3] == "plain" and s[4] is None][0]
    hd = [s for s in singles if s[0] == "a" and s[3] == "custom" and s[4] is not None][0]
    out.append(("mp", [one] * 70))
    out.append(("mp", [hd] * 70))
    out.append(("form", True, [("file", b"data", "a.bin")] + [(f"f{i}", f"v{i}", None) for i in range(70)]))
    for q in (True, False):
        out.append(("form", q, [("f", b"data", "a.txt"), ("t", "téxt", None)]))
        out.append(("form", q, [("fi eld", b"\r\n--" + B.encode()[:-1], 'q"uo%te.txt'), ("é", "v", None)]))
        out.append(("form", q, [("n", b"", "fïle€.bin")]))
        out.append(("form", q, [("_charset_", "utf-8", None), ("a", b"1", "a.bin"), ("b", "2", None)]))
        out.append(("form", q, [("a", b"1", "a.bin"), ("_charset_", "iso-8859-1", None), ("b", "2", None)]))
        out.append(("form", q, [("a", b"1", "a.bin"), ("_charset_", "utf-8", None)]))
    return out


# ---------------------------------------------------------------- termination / limits
def _job_term(job):
    bodies = job
    part = Part()
    ALPH = [b"\r", b"\n", b"-", B.encode()[:1], b"a", b":"]
    for label, ctype, body in bodies:
        muts = []
        for i in range(len(body)):
            muts.append((("del", i), body[:i] + body[i + 1:]))
            muts.append((("dup", i), body[:i + 1] + body[i:]))
            for a in ALPH:
                if body[i:i + 1] != a:
                    muts.append((("sub", i, a), body[:i] + a + body[i + 1:]))
        for i in range(len(body)):
            muts.append((("trunc", i), body[:i]))
        for d, m in muts:
            for api in ("read", "line", "release", "line1", "chunk1"):
                loop = VLoop().hold()
                try:
                    n = len(m)
                    got = run_reader(loop, ctype, m, (n // 2,) if n > 1 else (), api, horizon=3000)
                finally:
                    loop.finish()
                part.count("executions")
                part.count("transitions", 2)
                case = {"kind": "term", "label": label, "ctype": ctype, "body": m, "api": api}
                if "hang" in got:
                    part.violation("C19:termination:reader-never-finishes", f"{label} mutation {d} ({api}): reader still running after EOF and {got['steps']} steps", case)
                elif got.get("base"):
                    part.violation(f"C19:termination:non-error-exception:{got['error']}", f"{label} mutation {d} ({api}): {got['error']}", case)
                part.outcome((api, got.get("error"), len(got.get("parts", ()))))
    part.sample({"section": "termination", "bodies": [b[0] for b in bodies]})
    return part


def term_bodies():
    out = []
    loop = VLoop().hold()
    try:
        for label, spec in (("one-part", [("a", None, None, "plain", None)]), ("two-parts", [("lines", None, None, "plain", None), ("crlf--", None, None, "custom", None)]),
                            ("base64", [("binary", "base64", None, "plain", None)]), ("with-length", None)):
            if spec is None:
                body = (f"--{B}\r\nContent-Length: 3\r\n\r\nabc\r\n--{B}\r\nContent-Type: text/plain\r\n\r\nxyz\r\n--{B}--\r\n").encode()
                out.append((label, f"multipart/mixed; boundary={B}", body))
                continue
            if label == "base64":
                spec = [("a", "base64", None, "plain", None)]
            mp, _w = build(spec)
            out.append((label, f"multipart/mixed; boundary={B}", serialize(loop, mp)))
        inner = f"--IN\r\n\r\nx\r\n--IN--\r\n"
        out.append(("nested", f"multipart/mixed; boundary={B}", (f"--{B}\r\nContent-Type: multipart/mixed; boundary=IN\r\n\r\n{inner}\r\n--{B}\r\n\r\ny\r\n--{B}--\r\n").encode()))
    finally:
        loop.finish()
    return out


def _job_limits(_job):
    part = Part()
    ctype = f"multipart/mixed; boundary={B}"
    for label, body, kw, expect_error in (
        ("long-header", (f"--{B}\r\nX-A: " + "v" * 200 + f"\r\n\r\nx\r\n--{B}--\r\n").encode(), {"max_field_size": 64}, True),
        ("long-header-unterminated", (f"--{B}\r\nX-A: " + "v" * 5000).encode(), {"max_field_size": 64}, True),
        ("many-headers", (f"--{B}\r\n" + "X-A: 1\r\n" * 40 + f"\r\nx\r\n--{B}--\r\n").encode(), {"max_headers": 8}, True),
        ("headers-at-limit", (f"--{B}\r\n" + "X-A: 1\r\n" * 7 + f"\r\nx\r\n--{B}--\r\n").encode(), {"max_headers": 8}, False),
        ("part-over-max-size", (f"--{B}\r\n\r\n" + "d" * 5000 + f"\r\n--{B}--\r\n").encode(), {"client_max_size": 1000}, True),
    ):
        for cuts in [()] + [(i,) for i in range(1, len(body), max(1, len(body) // 60))] + [tuple(range(1, len(body), 7))]:
            loop = VLoop().hold()
            try:
                got = run_reader(loop, ctype, body, cuts, "read", **kw)
            finally:
                loop.finish()
            part.count("executions")
            part.count("transitions", len(cuts) + 1)
            case = {"kind": "limits", "label": label, "cuts": list(cuts)}
            if "hang" in got:
                part.violation("C19:limits:reader-hangs", f"{label}: reader did not finish", case)
            elif expect_error and "error" not in got:
                part.violation(f"C19:limits:not-enforced:{label}", f"{label} with {kw}: accepted ({len(got['parts'])} parts)", case)
            elif not expect_error and "error" in got:
                part.violation(f"C19:limits:too-strict:{label}", f"{label} with {kw}: {got['error']} {got.get('msg')}", case)
            part.outcome((label, got.get("error")))
    # decoding a compressed part step by step: no step hands back more than the configured step size, also when
    # the compressed input is large enough to be inflated in the executor (a zip bomb must not be inflated at once)
    import gzip as _gzip
    from aiohttp.multipart import BodyPartReader
    from multidict import CIMultiDictProxy
    for nbytes in (1 << 20, 6 << 20):
        for enc in ("gzip", "deflate"):
            raw = b"\0" * nbytes
            if enc == "gzip":
                blob = _gzip.compress(raw, mtime=0)
            else:
                co = zlib.compressobj(wbits=-zlib.MAX_WBITS)       # multipart "deflate" parts are header-less
                blob = co.compress(raw) + co.flush()
            loop = VLoop().hold()
            try:
                async def go(blob=blob, enc=enc):
                    proto = _Proto(loop)
                    stream = StreamReader(proto, 2 ** 16, loop=loop)
                    stream.feed_eof()
                    br = BodyPartReader(b"--" + B.encode(), CIMultiDictProxy(CIMultiDict({"Content-Encoding": enc})), stream)
                    sizes, total = [], 0
                    async for piece in br.decode_iter(blob):
                        sizes.append(len(piece))
                        total += len(piece)
                    return sizes, total, br._max_decompress_size
                t = loop.create_task(go())
                for _ in range(2000):
                    loop.drain(500)
                    while loop.exec_jobs:
                        loop.complete_exec_job(0)
                    if t.done():
                        break
                part.count("executions")
                part.count("transitions", 1)
                case = {"kind": "limits-decode", "label": f"decode_iter/{enc}/{nbytes}"}
                if not t.done():
                    part.violation("C19:limits:decode_iter-hangs", case["label"], case)
                    t.cancel()
                    loop.drain(10)
                else:
                    sizes, total, step = t.result()
                    if total != nbytes:
                        part.violation("C19:limits:decode_iter-content", f"{case['label']} (compressed {len(blob)} bytes): {total} bytes decoded", case)
                    elif max(sizes) > step + 1024:
                        part.violation("C19:limits:decode-step-unbounded", f"{case['label']} (compressed {len(blob)} bytes): one step returned {max(sizes)} bytes, step size is {step}", case)
                    part.outcome((case["label"], len(sizes)))
            finally:
                loop.finish()
    return part


# ---------------------------------------------------------------- the same bodies through Request.post()
POST_FIELDS = {
    # name: (content, transfer-encoding, filename)
    "f64": (b"abcdef", "base64", "x.bin"),
    "f64long": (bytes(range(256)) * 3, "base64", "y.bin"),
    "fqp": (b"a=b caf\xc3\xa9 \r\nline two=\r\n", "quoted-printable", "q.txt"),
    "t64": ("t\u00e9xt value", "base64", None),
    "tqp": ("a=b;c d\u00e9", "quoted-printable", None),
    "fplain": (b"\r\n--" + B.encode()[:-1] + b"\r\n", None, "p.bin"),
    "tplain": ("plain", None, None),
    "_charset_": ("iso-8859-1", None, None),              # the HTML default-charset field: first, consumed by the reader
    "tlatin": (b"caf\xe9", None, None),                   # a text field in that charset
}
POST_WANT = {"tlatin": "caf\u00e9"}
POST_FORMS = [["f64"], ["f64long"], ["fqp"], ["t64"], ["tqp"], ["f64", "tplain"], ["tqp", "f64"], ["fplain", "t64", "fqp"],
              ["_charset_", "tlatin"], ["_charset_", "tlatin", "f64"]]


def post_case(part, loop, names, cuts):
    from aiohttp.test_utils import make_mocked_request

    # (a "form-data" writer refuses transfer encodings - RFC 7578 4.7; the parts are written by a "mixed" writer and
    # the body is received as multipart/form-data, which is what a client that does use them sends)
    mp = MultipartWriter("mixed", boundary=B)
    want = []
    for n in names:
        content, enc, fname = POST_FIELDS[n]
        h = CIMultiDict()
        if enc:
            h[hdrs.CONTENT_TRANSFER_ENCODING] = enc
        if n == "tlatin":
            from aiohttp import payload as _payload
            content_obj = _payload.StringPayload(content.decode("iso-8859-1"), encoding="iso-8859-1", content_type="text/plain", headers=h)
        else:
            content_obj = content
        p = mp.append(content_obj, h)
        p.set_content_disposition("form-data", name=n, **({"filename": fname} if fname else {}))
        if n != "_charset_":
            want.append((n, POST_WANT.get(n, content)))
    body = serialize(loop, mp)
    if cuts == "all":
        cutsets = [()] + [(i,) for i in range(1, len(body))] + [tuple(range(1, len(body)))]
    else:
        cutsets = [tuple(cuts)]
    for cs in cutsets:
        proto = _Proto(loop)
        stream = StreamReader(proto, 2 ** 16, loop=loop)
        req = make_mocked_request("POST", "/", headers={"Content-Type": f"multipart/form-data; boundary={B}"}, payload=stream, loop=loop)

        async def go():
            data = await req.post()
            out = []
            for k in data:
                v = data[k]
                out.append((k, v if isinstance(v, str) else bytes(v) if isinstance(v, (bytes, bytearray)) else v.file.read()))
            return out

        t = loop.create_task(go())
        prev = 0
        for c in list(cs) + [len(body)]:
            if body[prev:c]:
                stream.feed_data(body[prev:c])
            prev = c
            loop.drain(2000)
            while loop.exec_jobs:
                loop.complete_exec_job(0)
                loop.drain(2000)
        stream.feed_eof()
        loop.drain(2000)
        while loop.exec_jobs and not t.done():
            loop.complete_exec_job(0)
            loop.drain(2000)
        part.count("executions")
        part.count("transitions", len(cs) + 1)
        case = {"kind": "post", "fields": list(names), "cuts": list(cs)}
        label = f"post() of form {names} cuts={list(cs)[:3]}{'...' if len(cs) > 3 else ''}"
        if not t.done():
            t.cancel()
            loop.drain(20)
            part.violation("C19:post:hangs", f"{label}: post() does not return", case)
            return
        try:
            got = t.result()
        except BaseException as e:  # noqa: BLE001
            part.violation(f"C19:post:raises:{type(e).__name__}", f"{label}: {e!r}", case)
            return
        norm = [(k, v if isinstance(v, (bytes, str)) else bytes(v)) for k, v in got]
        if norm != want:
            bad = next((k for (k, v), (_k2, w) in zip(norm, want) if v != w), "count")
            part.violation(f"C19:post:content-differs:{POST_FIELDS.get(bad, (0, 'count'))[1] or 'plain'}",
                           f"{label}: field {bad}: got {dict(norm).get(bad)!r:.80}, written {dict(want).get(bad)!r:.80}", case)
            return
        part.outcome(("post", tuple(names), len(norm)))


def _job_post(names):
    part = Part()
    loop = VLoop().hold()
    try:
        post_case(part, loop, names, "all")
        part.state(("post", tuple(names)))
    finally:
        loop.finish()
    return part


def _dispatch(job):
    if job[0] == "rt":
        return _job_roundtrip(job[1])
    if job[0] == "post":
        return _job_post(job[1])
    if job[0] == "term":
        return _job_term(job[1])
    return _job_limits(job)


def run(ctx):
    ctx.rule = (
        "roundtrip: every single part over content(16) x transfer-encoding x content-encoding, header and Content-Disposition variants, every ordered pair "
        "(triple in thorough) of a core part set, nested and FormData bodies; each serialised by the real writer and read back through 5 reading modes under every "
        "single cut + byte-at-a-time (bodies <= 400 bytes) or every cut within 6 bytes of a boundary and at the 8192/16384 thresholds; termination: every "
        "single-byte deletion/duplication/substitution (6-symbol alphabet) and every truncation of 5 small bodies x 3 reading modes; limits: 5 limit cases x cuts"
    )
    ctx.assumptions += [
        "the reader reads from a real StreamReader fed segment by segment on the virtual loop, then EOF; step horizon 3000-4000 loop passes",
        "readline() is compared only for parts without transfer/content encoding",
    ]
    sp = specs(ctx.quick)
    jobs = [("rt", sp[i:i + 12]) for i in range(0, len(sp), 12)]
    tb = term_bodies()
    jobs += [("term", [b]) for b in tb]
    jobs += [("limits",)]
    jobs += [("post", names) for names in POST_FORMS]
    for part in ctx.pmap(_dispatch, jobs):
        ctx.merge(part)
    ctx.notes["roundtrip_specs"] = len(sp)
    ctx.notes["termination_bodies"] = [b[0] for b in tb]


def replay(case):
    k = case["kind"]
    if k == "post":
        part = Part()
        loop = VLoop().hold()
        try:
            post_case(part, loop, case["fields"], case["cuts"])
        finally:
            loop.finish()
        return part.violations
    if k == "roundtrip":
        spec = case["spec"]

        def tup(x):
            return tuple(tup(i) for i in x) if isinstance(x, list) else x
        spec = tup(spec)
        if spec[0] in ("mp", "nested"):
            spec = (spec[0], [tuple(s[:4]) + ((s[4][0], s[4][1]) if s[4] else None,) for s in spec[1]])
        else:
            spec = (spec[0], spec[1], [tuple(x) for x in spec[2]])
        return _job_roundtrip([spec]).violations
    if k == "term":
        part = Part()
        loop = VLoop().hold()
        try:
            m = case["body"]
            got = run_reader(loop, case["ctype"], m, (len(m) // 2,) if len(m) > 1 else (), case["api"], horizon=3000)
        finally:
            loop.finish()
        if "hang" in got:
            part.violation("C19:termination:reader-never-finishes", "replay", case)
        elif got.get("base"):
            part.violation(f"C19:termination:non-error-exception:{got['error']}", "replay", case)
        return part.violations
    return _job_limits(("limits",)).violations
