"""C04 Outbound messages: field contents cannot inject structure; framing is truthful.

Three sections (DESIGN §3 C04):

inject   STREAM: every code point of the tier's set and every 2-gram over a control alphabet is
         inserted at the start / middle / end of every outbound text slot (client: method,
         target, header name/value, cookie name/value; server: reason, header name/value,
         set_cookie name/value/domain/path, content_type, charset; multipart: part header
         name/value, FormData field name / filename / content_type) and pushed through the real
         public API down to transport.write.  Oracle: an independent line splitter (CRLF, bare CR,
         bare LF) sees exactly the line structure of the benign baseline, or nothing was written.
writer   SEQ: BFS over StreamWriter op sequences (write of 0/1/3/2048/65537 bytes, send_headers,
         set_eof, write_eof with and without data) x framing modes (identity, chunked, deflate,
         gzip, chunked+deflate/gzip).  Oracle: strict chunked decoding / inflating of the bytes
         after the head gives exactly the concatenation of what was written, one terminator,
         nothing after it.
sizes    enumeration: every payload class x sizes x offsets, multipart writers with 0-3 parts
         (also non-ASCII part headers), FormData; `size` equals the bytes `write()` emits, and
         the Content-Length a real client / server puts on the wire equals the body that follows.
"""
from __future__ import annotations

import asyncio
import gzip
import io
import itertools
import json
import os
import tempfile
import zlib

import aiohttp
from aiohttp import ClientTimeout, FormData, MultipartWriter, hdrs, payload as pl, web
from aiohttp.abc import AbstractStreamWriter
from aiohttp.base_protocol import BaseProtocol
from aiohttp.http_writer import StreamWriter
from multidict import CIMultiDict
from yarl import URL

from mc import bfs
from mc.client import ScriptPeer, WireConnector
from mc.core import Part
from mc.server import AppConn
from mc.vloop import VLoop

PROPERTY = "C04"


# ============================================================ helpers
def split_lines(head: bytes):
    """Lines as a lenient receiver could see them: CRLF, bare CR and bare LF all end a line."""
    return head.replace(b"\r\n", b"\n").replace(b"\r", b"\n").split(b"\n")


def head_and_body(raw: bytes):
    i = raw.find(b"\r\n\r\n")
    if i < 0:
        return raw, None
    return raw[:i], raw[i + 4:]


class _Tr(asyncio.Transport):
    def __init__(self):
        super().__init__()
        self.out = []
        self.closing = False

    def write(self, data):
        self.out.append(bytes(data))

    def writelines(self, chunks):
        for c in chunks:
            self.out.append(bytes(c))

    def is_closing(self):
        return self.closing

    def close(self):
        self.closing = True

    def get_write_buffer_size(self):
        return 0


# ============================================================ section inject
MARK = "QQQ"


def run_client(slot, text):
    """Bytes the client wrote for one request in which `slot` carries `text` (None if refused)."""
    loop = VLoop().hold()
    err = None
    raw = b""
    try:
        env = _Env()
        connector = WireConnector(env, limit=2)
        session = aiohttp.ClientSession(connector=connector, timeout=ClientTimeout(total=None), cookie_jar=aiohttp.DummyCookieJar())
        kw = {"headers": {"X-Other": "keep"}}
        method, url = "GET", "http://a.test/path?x=1"
        if slot == "method":
            method = text
        elif slot == "target":
            url = "http://a.test/pa" + text + "th"
        elif slot == "target-encoded":
            url = URL("http://a.test/pa" + text + "th", encoded=True)
        elif slot == "query":
            kw["params"] = {"k": text}
        elif slot == "hname":
            kw["headers"] = {"X-Other": "keep", text: "v"}
        elif slot == "hvalue":
            kw["headers"] = {"X-Other": "keep", "X-Slot": text}
        elif slot == "cname":
            kw["cookies"] = {text: "v"}
        elif slot == "cvalue":
            kw["cookies"] = {"ck": text}
        elif slot == "ua":
            kw["headers"] = {"X-Other": "keep", "User-Agent": text}
        elif slot == "host":
            kw["headers"] = {"X-Other": "keep", "Host": text}
        elif slot == "url-user":
            url = URL.build(scheme="http", user=text, password="pw", host="a.test", path="/path")
        else:
            raise KeyError(slot)

        async def go():
            async with session.request(method, url, **kw) as resp:
                await resp.read()

        t = loop.create_task(go())
        loop.drain(300)
        if connector.created:
            ct, st, peer = connector.created[0]
            st.deliver()
            raw = bytes(peer.buf)
        if t.done() and not t.cancelled() and t.exception() is not None:
            err = type(t.exception()).__name__
        t.cancel()
        loop.drain(50)
        connector._close_immediately()
    except Exception as e:  # noqa: BLE001
        err = type(e).__name__
    finally:
        loop.finish()
    return raw, err


class _Env:
    def connect_gate(self, req):
        return None

    def new_peer(self, req, index):
        return ScriptPeer(self, index, req.connection_key)

    def on_acquire(self, proto, req):
        pass


def run_server(slot, text):
    loop = VLoop().hold()
    err = []
    raw = b""
    try:
        async def handler(request):
            try:
                kw = {"text": "body", "headers": {"X-Other": "keep"}}
                if slot == "reason":
                    kw["reason"] = text
                elif slot == "hname":
                    kw["headers"] = {"X-Other": "keep", text: "v"}
                elif slot == "hvalue":
                    kw["headers"] = {"X-Other": "keep", "X-Slot": text}
                elif slot == "content_type":
                    kw["content_type"] = text
                elif slot == "charset":
                    kw["charset"] = text
                resp = web.Response(**kw)
                if slot == "ck-name":
                    resp.set_cookie(text, "v")
                elif slot == "ck-value":
                    resp.set_cookie("ck", text)
                elif slot == "ck-domain":
                    resp.set_cookie("ck", "v", domain=text)
                elif slot == "ck-path":
                    resp.set_cookie("ck", "v", path=text)
                elif slot == "ck-samesite":
                    resp.set_cookie("ck", "v", samesite=text)
                elif slot == "location":
                    raise web.HTTPFound(location="/x" + text)
                elif slot == "etag":
                    resp.etag = text
                return resp
            except web.HTTPException:
                raise
            except Exception as e:  # noqa: BLE001
                err.append(type(e).__name__)
                raise

        app = web.Application()
        app.router.add_get("/", handler)
        conn = AppConn(loop, app)
        conn.settle()
        conn.send(b"GET / HTTP/1.1\r\nHost: a\r\n\r\n")
        conn.deliver_to_server()
        conn.settle(1.0)
        raw = bytes(conn.client.received)
    except Exception as e:  # noqa: BLE001
        err.append(type(e).__name__)
    finally:
        loop.finish()
    return raw, (err[0] if err else None)


def run_multipart(slot, text):
    """Bytes a multipart body writes when `slot` carries `text`."""
    loop = VLoop().hold()
    err = None
    raw = b""
    try:
        if slot.startswith("fd-"):
            fd = FormData(quote_fields=slot.endswith("-raw"))
            s = slot.replace("-raw", "")
            if s == "fd-name":
                fd.add_field(text, "v")
            elif s == "fd-filename":
                fd.add_field("f", b"data", filename=text)
            elif s == "fd-ctype":
                fd.add_field("f", b"data", content_type=text, filename="a.bin")
            fd.add_field("other", "keep")
            fd._writer._boundary = b"BOUND"     # noqa: SLF001  (deterministic output)
            body = fd()
        else:
            mp = MultipartWriter("mixed", boundary="BOUND")
            h = {"X-Other": "keep"}
            if slot == "part-hname":
                h[text] = "v"
            elif slot == "part-hvalue":
                h["X-Slot"] = text
            part = mp.append("data", CIMultiDict(h))
            if slot == "part-disp-name":
                part.set_content_disposition("form-data", name=text)
            elif slot == "part-disp-filename":
                part.set_content_disposition("attachment", filename=text)
            elif slot == "part-disp-type":
                part.set_content_disposition(text, name="n")
            elif slot == "part-disp-param":
                part.set_content_disposition("form-data", **{text: "v"}) if text.isidentifier() or True else None
            body = mp
        w = _Collect()
        t = loop.create_task(body.write(w))
        loop.drain(300)
        if t.done() and t.exception() is not None:
            err = type(t.exception()).__name__
        raw = bytes(w.buf)
    except Exception as e:  # noqa: BLE001
        err = type(e).__name__
    finally:
        loop.finish()
    return raw, err


class _Collect(AbstractStreamWriter):
    def __init__(self):
        self.buf = bytearray()
        self.buffer_size = 0
        self.output_size = 0
        self.length = 0

    async def write(self, chunk):
        self.buf += bytes(chunk)

    async def write_eof(self, chunk=b""):
        self.buf += bytes(chunk)

    async def drain(self):
        pass

    def enable_compression(self, encoding="deflate", strategy=None):
        pass

    def enable_chunking(self):
        pass

    async def write_headers(self, status_line, headers):
        pass

    def send_headers(self):
        pass


CLIENT_SLOTS = ["method", "target", "target-encoded", "query", "hname", "hvalue", "cname", "cvalue", "ua", "host", "url-user"]
SERVER_SLOTS = ["reason", "hname", "hvalue", "content_type", "ck-name", "ck-value", "ck-domain", "ck-path", "ck-samesite", "location", "etag"]
MP_SLOTS = ["part-hname", "part-hvalue", "part-disp-name", "part-disp-filename", "part-disp-type", "fd-name", "fd-filename", "fd-ctype",
            "fd-name-raw", "fd-filename-raw"]
RUNNERS = {"client": (run_client, CLIENT_SLOTS), "server": (run_server, SERVER_SLOTS), "multipart": (run_multipart, MP_SLOTS)}

GRAM = ["\r", "\n", "\x00", "\t", " ", "\x0b", "\x7f", "\x85", " ", ":", "a"]


def code_points(quick):
    s = set(range(0, 0x180)) | {0x2028, 0x2029, 0x0085, 0x00A0, 0xD800, 0xDC0A, 0xDC0D, 0xDFFF, 0xFEFF, 0xFF0A, 0xFF0D, 0xFFFF,
                                0x010A, 0x010D, 0x0A0A, 0x0D0A, 0x0A00, 0x0D00, 0x1000A, 0x1000D, 0x10FFFF, 0x20AC, 0x3000}
    if not quick:
        s |= set(range(0x180, 0x3000)) | set(range(0xD7F0, 0xE010)) | set(range(0xFE00, 0x10000)) | set(range(0x10000, 0x110000, 0x101))
    return sorted(s)


def structure(kind, raw):
    if kind == "multipart":
        return [l for l in split_lines(raw)]
    head, body = head_and_body(raw)
    # the Date field is the only thing on the wire that depends on real time
    lines = [b"Date: <masked>" if l.startswith(b"Date: ") and b"GMT" in l else l for l in split_lines(head)]
    return lines + [b"<BODY>" + (body if body is not None else b"<none>")]


def judge_injection(part, kind, slot, text, raw, err, base_lines, slot_lines=()):
    case = {"kind": "inject", "side": kind, "slot": slot, "text": text}
    part.count("executions")
    part.count("transitions")
    refused_500 = kind == "server" and raw.startswith(b"HTTP/1.1 500 ") and MARK.encode() not in raw
    aborted_mp = kind == "multipart" and err is not None and MARK.encode() not in raw
    if not raw or refused_500 or aborted_mp:
        # refused: nothing written, or (server) the handler's failure answered with a clean 500 that carries none of the
        # supplied text, or (multipart body) the writer stopped before the offending part header
        part.outcome((kind, slot, "refused", err))
        return
    lines = structure(kind, raw)
    enc_variants = [text.encode("utf-8", "surrogatepass")]
    if len(lines) != len(base_lines):
        part.violation(f"C04:inject:{kind}:{slot}:line-added",
                       f"{kind} slot {slot} with {text!r}: {len(lines)} lines on the wire, the benign message has {len(base_lines)}: {raw[:200]!r} (error: {err})", case)
        return
    diff = [i for i, (a, b) in enumerate(zip(lines, base_lines)) if a != b]
    allowed = [i for i, b in enumerate(base_lines) if MARK.encode() in b] + list(slot_lines)
    extra = [i for i in diff if i not in allowed]
    if extra:
        part.violation(f"C04:inject:{kind}:{slot}:other-line-changed",
                       f"{kind} slot {slot} with {text!r}: line {extra[0]} became {lines[extra[0]][:80]!r} (benign: {base_lines[extra[0]][:80]!r})", case)
        return
    part.outcome((kind, slot, "written", len(diff)))


def slot_lines_of(kind, slot, base_lines):
    """Lines that carry the slot's text even when it is transformed (base64 credentials ...): those that
    change between two benign tokens."""
    raw2, _e = RUNNERS[kind][0](slot, "a" + MARK[:2] + "Zb")
    l2 = structure(kind, raw2) if raw2 else []
    if len(l2) != len(base_lines):
        return ()
    return [i for i, (a, b) in enumerate(zip(base_lines, l2)) if a != b]


def _job_inject(job):
    kind, slot, texts = job
    runner = RUNNERS[kind][0]
    part = Part()
    base_raw, base_err = runner(slot, "a" + MARK + "b")
    if not base_raw:
        # the slot does not accept even a benign token (e.g. an invalid method): nothing to compare with
        part.count("slots_without_baseline")
        return part
    base_lines = structure(kind, base_raw)
    slot_lines = slot_lines_of(kind, slot, base_lines)
    for text in texts:
        raw, err = runner(slot, text)
        judge_injection(part, kind, slot, text, raw, err, base_lines, slot_lines)
    part.state((kind, slot))
    part.sample({"section": "inject", "side": kind, "slot": slot, "text": texts[len(texts) // 2]})
    return part


def injection_texts(quick):
    out = []
    for cp in code_points(quick):
        ch = chr(cp)
        out += [ch + "a" + MARK + "b", "a" + MARK[:1] + ch + MARK[1:] + "b" if False else "a" + MARK + ch + "b", "a" + MARK + "b" + ch]
    for a in GRAM:
        for b in GRAM:
            g = a + b
            out += [g + "a" + MARK + "b", "a" + MARK + g + "X: y", "a" + MARK + "b" + g]
    out += ["a" + MARK + "b\r\nX-Injected: 1", "a" + MARK + "b\r\n\r\nGET /2 HTTP/1.1\r\nHost: x\r\n\r\n", "a" + MARK + "b\nSet-Cookie: x=y"]
    return out


# ============================================================ section writer
HEAD = "HTTP/1.1 200 OK"
DATA = {"w0": b"", "w1": b"a", "w3": b"bcd", "w2048": b"e" * 2048, "w65537": bytes(range(256)) * 256 + b"z"}
import array as _array
_MV = _array.array("I", [0x61626364, 0x65666768, 0x696a6b6c])      # 3 items, 12 bytes: len() != nbytes
OPS = ["w0", "w1", "w3", "w2048", "w65537", "send_headers", "set_eof", "eof0", "eof2", "wmv", "eofmv"]
MODES = ["identity", "chunked", "deflate", "gzip", "chunked+deflate", "chunked+gzip", "length4", "length2050", "length65540"]


class WSim:
    def __init__(self, config):
        self.mode = config["mode"]
        self.ops = config.get("ops", OPS)
        self.loop = VLoop().hold()
        self.tr = _Tr()
        proto = BaseProtocol(self.loop)
        proto.transport = self.tr
        self.w = StreamWriter(proto, self.loop)
        if "chunked" in self.mode:
            self.w.enable_chunking()
        if "deflate" in self.mode:
            self.w.enable_compression("deflate")
        if "gzip" in self.mode:
            self.w.enable_compression("gzip")
        self.declared = None
        if self.mode.startswith("length"):
            # a declared Content-Length: the writer lets through at most that many body bytes
            self.declared = self.w.length = int(self.mode[6:])
        self.written = bytearray()
        self.problems = []
        self.done = False
        self.sync(self.w.write_headers(HEAD, CIMultiDict({"X-A": "1"})))

    def sync(self, coro):
        t = self.loop.create_task(coro)
        self.loop.drain(200)
        while self.loop.exec_jobs:
            self.loop.complete_exec_job(0)
            self.loop.drain(200)
        if not t.done():
            t.cancel()
            self.loop.drain(10)
            raise RuntimeError("writer op did not finish")
        return t.result()

    def enabled(self):
        if self.done:
            return []
        if "deflate" in self.mode or "gzip" in self.mode:
            # set_eof() only marks the end of a message whose body was sent elsewhere; it is not the way to finish a compressed stream
            return [o for o in self.ops if o != "set_eof"]
        return self.ops

    def apply(self, op, check=True):
        try:
            if op in DATA:
                self.sync(self.w.write(DATA[op]))
                self.written += DATA[op]
            elif op == "wmv":
                self.sync(self.w.write(memoryview(_MV)))        # a buffer whose items are wider than a byte
                self.written += _MV.tobytes()
            elif op == "eofmv":
                self.sync(self.w.write_eof(memoryview(_MV)))
                self.written += _MV.tobytes()
                self.done = True
            elif op == "send_headers":
                self.w.send_headers()
            elif op == "set_eof":
                self.w.set_eof()
                self.done = True
            elif op == "eof0":
                self.sync(self.w.write_eof())
                self.done = True
            elif op == "eof2":
                self.sync(self.w.write_eof(b"XY"))
                self.written += b"XY"
                self.done = True
        except Exception as e:  # noqa: BLE001
            self.problems.append((f"C04:writer:exception:{type(e).__name__}", f"{op} raised {e!r} in mode {self.mode}"))
            self.done = True
            return ("raise", type(e).__name__)
        return self.check() if check else None

    def apply_quiet(self, op):
        return self.apply(op, check=False)

    def P(self, sig, msg):
        self.problems.append((f"C04:writer:{sig}:{self.mode.split('+')[0] if False else self.mode}", msg))

    def check(self):
        raw = b"".join(self.tr.out)
        head, body = head_and_body(raw)
        if body is None:
            if raw and not HEAD.encode().startswith(raw[:len(HEAD)]) and not raw.startswith(HEAD.encode()):
                self.P("body-before-head", f"bytes were written before the head: {raw[:40]!r}")
            if self.written and "deflate" not in self.mode and "gzip" not in self.mode and raw and not raw.startswith(HEAD.encode()):
                self.P("body-before-head", f"data went out without the head: {raw[:40]!r}")
            return ("no-head", len(raw))
        if not raw.startswith(HEAD.encode() + b"\r\nX-A: 1\r\n\r\n"):
            self.P("head-differs", f"head on the wire: {head[:80]!r}")
        compressed = "deflate" in self.mode or "gzip" in self.mode
        payload = body
        terminated = None
        if "chunked" in self.mode:
            payload, terminated, rest, bad = dechunk(body)
            if bad:
                self.P("bad-chunk-syntax", f"{bad}: {body[:60]!r}")
                return ("bad",)
            if rest:
                self.P("bytes-after-terminator", f"{len(rest)} bytes follow the last-chunk: {rest[:40]!r}")
            if self.done and not terminated:
                self.P("no-terminator", "message finished without the zero-size chunk")
            if not self.done and terminated:
                self.P("early-terminator", "zero-size chunk emitted before the end of the message")
        if compressed:
            try:
                d = zlib.decompressobj(wbits=16 + zlib.MAX_WBITS if "gzip" in self.mode else zlib.MAX_WBITS)
                plain = d.decompress(payload)
                if self.done:
                    if not d.eof:
                        self.P("compressed-stream-unfinished", "the compressed body is not a complete stream at end of message")
                    if plain != bytes(self.written):
                        self.P("body-differs", f"inflated body has {len(plain)} bytes, written {len(self.written)}")
                elif not bytes(self.written).startswith(plain):
                    self.P("body-differs", "inflated prefix is not a prefix of the written data")
            except zlib.error as e:
                self.P("compressed-stream-corrupt", str(e))
        elif self.declared is not None:
            if payload != bytes(self.written)[:self.declared]:
                self.P("declared-length-overrun" if len(payload) > self.declared else "body-differs",
                       f"declared length {self.declared}, written {len(self.written)} bytes, {len(payload)} body bytes on the wire")
        else:
            if payload != bytes(self.written):
                self.P("body-differs", f"body on the wire has {len(payload)} bytes ({payload[:20]!r}...), written {len(self.written)} bytes")
        return ("ok", len(body), terminated)

    def canon(self):
        w = self.w
        import hashlib
        return (self.mode, hashlib.sha1(bytes(self.written)).hexdigest(), w._headers_written, w._headers_buf is not None, w._eof, self.done,
                hashlib.sha1(b"".join(self.tr.out)).hexdigest(), w.buffer_size > 0x10000, w.length)

    def close(self):
        self.loop.finish()


def dechunk(body: bytes):
    """Strict chunked decoding: (data, terminated, rest, error)."""
    out = bytearray()
    p = 0
    while p < len(body):
        e = body.find(b"\r\n", p)
        if e < 0:
            return bytes(out), False, b"", "chunk-size line not terminated"
        line = body[p:e]
        if not line or any(c not in b"0123456789abcdefABCDEF" for c in line):
            return bytes(out), False, b"", f"chunk-size line {line[:20]!r}"
        n = int(line, 16)
        p = e + 2
        if n == 0:
            if body[p:p + 2] != b"\r\n":
                return bytes(out), False, b"", "last-chunk not followed by CRLF"
            return bytes(out), True, body[p + 2:], None
        if len(body) < p + n + 2:
            return bytes(out), False, b"", "chunk shorter than its size"
        out += body[p:p + n]
        if body[p + n:p + n + 2] != b"\r\n":
            return bytes(out), False, b"", "chunk data not followed by CRLF"
        p += n + 2
    return bytes(out), False, b"", None


def make(config):
    return WSim(config)


# ============================================================ section sizes
SIZES = [0, 1, 2, 2047, 2048, 2049, 65536, 65537]


def data_of(n):
    return (bytes(range(32, 127)) * (n // 95 + 1))[:n]


def payload_cases(tmpdir):
    """(label, factory returning a Payload-like with .size and .write)"""
    for n in SIZES:
        d = data_of(n)
        yield f"bytes/{n}", lambda d=d: pl.BytesPayload(d)
        yield f"bytearray/{n}", lambda d=d: pl.BytesPayload(bytearray(d))
        yield f"memoryview/{n}", lambda d=d: pl.BytesPayload(memoryview(d))
        yield f"str/{n}", lambda d=d: pl.StringPayload(d.decode())
        yield f"str-nonascii/{n}", lambda n=n: pl.StringPayload("é" * n)
        yield f"str-utf16/{n}", lambda n=n: pl.StringPayload("ab€" * (n // 3), encoding="utf-16")
        yield f"bytesio/{n}", lambda d=d: pl.BytesIOPayload(io.BytesIO(d))
        yield f"stringio/{n}", lambda n=n: pl.StringIOPayload(io.StringIO("é" * n))
        yield f"json/{n}", lambda n=n: pl.JsonPayload({"k": "é" * n})
        for off in (0, 1, n // 2, n):
            if off > n:
                continue

            def bio(d=d, off=off):
                b = io.BytesIO(d)
                b.seek(off)
                return pl.BytesIOPayload(b)
            yield f"bytesio@{off}/{n}", bio

            def fil(d=d, off=off, n=n):
                p = os.path.join(tmpdir, f"f{n}")
                with open(p, "wb") as f:
                    f.write(d)
                fh = open(p, "rb")
                fh.seek(off)
                return pl.BufferedReaderPayload(fh)
            yield f"file@{off}/{n}", fil

            def tfil(off=off, n=n):
                p = os.path.join(tmpdir, f"t{n}")
                with open(p, "w", encoding="utf-8") as f:
                    f.write("é" * n)
                fh = open(p, "r", encoding="utf-8")
                fh.read(off)
                return pl.TextIOPayload(fh)
            yield f"textfile@{off}/{n}", tfil

            def tfil_latin1(off=off, n=n):
                # a text file in an encoding other than UTF-8: what goes on the wire is re-encoded text
                p = os.path.join(tmpdir, f"l{n}")
                with open(p, "w", encoding="latin-1") as f:
                    f.write("é" * n)
                fh = open(p, "r", encoding="latin-1")
                fh.read(off)
                return pl.TextIOPayload(fh)
            yield f"textfile-latin1@{off}/{n}", tfil_latin1


def multipart_cases():
    parts = {
        "empty": (b"", {}),
        "text": ("héllo", {}),
        "bytes": (b"\x00\xff" * 10, {}),
        "big": (data_of(2049), {}),
        "nonascii-header": (b"x", {"X-Nön": "välue"}),
        "json": ({"a": 1}, "json"),
    }
    names = list(parts)
    for k in (0, 1, 2, 3):
        for combo in itertools.product(names, repeat=k):
            if k == 3 and len(set(combo)) < 3 and combo[0] != "nonascii-header":
                continue

            def mk(combo=combo):
                mp = MultipartWriter("form-data", boundary="BOUND")
                for i, nm in enumerate(combo):
                    obj, h = parts[nm]
                    if h == "json":
                        p = mp.append_json(obj)
                    else:
                        p = mp.append(obj, CIMultiDict(h) if h else None)
                    if nm == "nonascii-header":
                        p.set_content_disposition("form-data", quote_fields=False, name=f"f{i}", filename="fïle.txt")
                    else:
                        p.set_content_disposition("form-data", name=f"f{i}")
                return mp
            yield "multipart/" + "+".join(combo), mk
    for quote in (True, False):
        for fname in ("a.txt", "fïle.txt", 'q"uote.txt'):
            for field in ("f", "fiéld"):
                def mkfd(quote=quote, fname=fname, field=field):
                    fd = FormData(quote_fields=quote)
                    fd.add_field(field, b"data", filename=fname)
                    fd.add_field("t", "téxt")
                    return fd()
                yield f"formdata/q{int(quote)}/{fname}/{field}", mkfd

    def nested():
        inner = MultipartWriter("mixed", boundary="IN")
        inner.append("x")
        outer = MultipartWriter("mixed", boundary="OUT")
        outer.append(inner)
        outer.append(b"y")
        return outer
    yield "multipart/nested", nested


def _job_sizes(job):
    kind = job[0]
    part = Part()
    tmpdir = tempfile.mkdtemp(prefix="c04-")
    try:
        cases = list(payload_cases(tmpdir)) if kind == "payloads" else list(multipart_cases())
        for label, mk in cases:
            loop = VLoop().hold()
            try:
                try:
                    p = mk()
                except Exception as e:  # noqa: BLE001
                    part.count("constructor_refused")
                    continue
                size = p.size
                w = _Collect()
                t = loop.create_task(p.write(w))
                n = 0
                while not t.done() and n < 5000:
                    loop.drain(200)
                    while loop.exec_jobs:
                        loop.complete_exec_job(0)
                    n += 1
                part.count("executions")
                part.count("transitions")
                case = {"kind": "sizes", "label": label}
                if not t.done():
                    part.violation("C04:sizes:write-hangs", f"{label}: write() did not finish", case)
                    t.cancel()
                    loop.drain(10)
                    continue
                if t.exception() is not None:
                    part.violation(f"C04:sizes:write-raises:{type(t.exception()).__name__}", f"{label}: {t.exception()!r}", case)
                    continue
                part.outcome((label.split("/")[0], size is None, len(w.buf) > 2048))
                part.state(label)
                if size is not None and size != len(w.buf):
                    part.violation(f"C04:sizes:size-differs:{label.split('/')[0].split('@')[0]}",
                                   f"{label}: declared size {size}, write() emitted {len(w.buf)} bytes", case)
                with contextlib_suppress():
                    close = getattr(p, "close", None)
                    if close is not None:
                        r = close()
                        if asyncio.iscoroutine(r):
                            tt = loop.create_task(r)
                            loop.drain(100)
            finally:
                loop.finish()
        # declared Content-Length on the wire (real client request and real server response)
        if kind == "payloads":
            for n in SIZES[:6]:
                for what in ("bytes", "str-nonascii", "bytesio", "formdata", "multipart-nonascii", "json"):
                    wire_length_client(part, what, n)
                    wire_length_server(part, what, n)
    finally:
        import shutil
        shutil.rmtree(tmpdir, ignore_errors=True)
    part.sample({"section": "sizes", "kind": kind})
    return part


class contextlib_suppress:
    def __enter__(self):
        return self

    def __exit__(self, *a):
        return True


def body_for(what, n):
    if what == "bytes":
        return data_of(n)
    if what == "str-nonascii":
        return "é" * n
    if what == "bytesio":
        return io.BytesIO(data_of(n))
    if what == "json":
        return pl.JsonPayload({"k": "é" * n})
    if what == "formdata":
        fd = FormData()
        fd.add_field("f", data_of(n), filename="fïle.bin")
        return fd
    if what == "multipart-nonascii":
        fd = FormData(quote_fields=False)
        fd.add_field("fiéld", data_of(n), filename="fïle.bin")
        return fd
    raise KeyError(what)


def check_wire(part, side, what, n, raw):
    case = {"kind": "wire", "side": side, "what": what, "n": n}
    head, body = head_and_body(raw)
    part.count("executions")
    part.count("transitions")
    if body is None:
        part.violation(f"C04:wire:{side}:no-message", f"{what}/{n}: nothing complete on the wire: {raw[:80]!r}", case)
        return
    hl = head.lower()
    i = hl.find(b"\r\ncontent-length:")
    chunked = b"\r\ntransfer-encoding: chunked" in hl
    if i >= 0:
        cl = int(head[i + 17:].split(b"\r\n")[0].strip())
        if cl != len(body):
            part.violation(f"C04:wire:{side}:content-length-differs:{what}", f"{what}/{n}: Content-Length {cl} but {len(body)} body bytes follow", case)
    elif chunked:
        data, term, rest, bad = dechunk(body)
        if bad or not term or rest:
            part.violation(f"C04:wire:{side}:bad-chunked-body:{what}", f"{what}/{n}: {bad or ('no terminator' if not term else 'bytes after terminator')}", case)
    part.outcome((side, what, chunked, i >= 0))


def wire_length_client(part, what, n):
    loop = VLoop().hold()
    raw = b""
    try:
        env = _Env()
        connector = WireConnector(env, limit=2)
        session = aiohttp.ClientSession(connector=connector, timeout=ClientTimeout(total=None), cookie_jar=aiohttp.DummyCookieJar())

        async def go():
            async with session.post("http://a.test/up", data=body_for(what, n)) as resp:
                await resp.read()

        t = loop.create_task(go())
        for _ in range(50):
            loop.drain(300)
            if connector.created:
                connector.created[0][1].deliver()
        if connector.created:
            raw = bytes(connector.created[0][2].buf)
        t.cancel()
        loop.drain(50)
        connector._close_immediately()
    finally:
        loop.finish()
    check_wire(part, "client", what, n, raw)


def wire_length_server(part, what, n):
    loop = VLoop().hold()
    raw = b""
    try:
        async def handler(request):
            b = body_for(what, n)
            if isinstance(b, FormData):
                b = b()
            if isinstance(b, str):
                return web.Response(text=b)
            return web.Response(body=b)

        app = web.Application()
        app.router.add_get("/", handler)
        conn = AppConn(loop, app)
        conn.settle()
        conn.send(b"GET / HTTP/1.1\r\nHost: a\r\n\r\n")
        conn.deliver_to_server()
        conn.settle(1.0)
        raw = bytes(conn.client.received)
    finally:
        loop.finish()
    check_wire(part, "server", what, n, raw)


# ============================================================ driver
def _dispatch(job):
    if job[0] == "inject":
        return _job_inject(job[1:])
    return _job_sizes(job[1:])


def run(ctx):
    ctx.rule = (
        "inject: (code point set x {start, middle, end}) + (all 2-grams over an 11-symbol control alphabet x 3 positions) + classic payloads, in every "
        "outbound slot (11 client, 12 server, 10 multipart) through the public API; writer: all op sequences up to the depth bound over 9 ops x 6 framing "
        "modes (BFS with canonical-state merging); sizes: payload classes x 8 sizes x offsets, 0-3 part multiparts, FormData variants, Content-Length on the wire"
    )
    ctx.assumptions += [
        "client requests go through ClientSession over the in-memory connector, server responses through web.Application behind a real RequestHandler",
        "the line splitter treats CRLF, bare CR and bare LF as line ends; a slot that refuses the benign token too is not judged",
        "writer ops stop at the first end-of-message op (the documented contract: no writes after write_eof)",
    ]
    texts = injection_texts(ctx.quick)
    jobs = []
    for kind, (_r, slots) in RUNNERS.items():
        for slot in slots:
            for i in range(0, len(texts), 400):
                jobs.append(("inject", kind, slot, texts[i:i + 400]))
    jobs += [("sizes", "payloads"), ("sizes", "multipart")]
    for part in ctx.pmap(_dispatch, jobs):
        ctx.merge(part)
    depth = 4 if ctx.quick else 6
    for mode in MODES:
        bfs.bfs(ctx, {"module": "harness.c04", "factory": "make", "config": {"mode": mode}}, depth, section=f"writer/{mode}", batch=30)
    ctx.notes["injection_texts"] = len(texts)
    ctx.notes["writer_depth"] = depth
    ctx.exhaustive = True


def replay(case):
    part = Part()
    k = case.get("kind")
    if k == "inject":
        runner = RUNNERS[case["side"]][0]
        base_raw, _e = runner(case["slot"], "a" + MARK + "b")
        raw, err = runner(case["slot"], case["text"])
        bl = structure(case["side"], base_raw)
        judge_injection(part, case["side"], case["slot"], case["text"], raw, err, bl, slot_lines_of(case["side"], case["slot"], bl))
        return part.violations
    if k == "seq":
        return bfs.replay_case(case)
    if k == "sizes":
        p = _job_sizes(("payloads",)) if not case["label"].startswith(("multipart", "formdata")) else _job_sizes(("multipart",))
        return [v for v in p.violations if v["case"].get("label") == case["label"]] or p.violations
    if k == "wire":
        (wire_length_client if case["side"] == "client" else wire_length_server)(part, case["what"], case["n"])
        return part.violations
    return []
