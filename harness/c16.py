"""C16 Cookies are sent only where RFC 6265 scoping allows.

SEQ engine: explicit-state BFS over histories of a real `CookieJar`
(Set-Cookie from a response URL through `update_cookies_from_headers`, clock
advance, clear / clear_domain, save+load, a mutating `filter_cookies`) against an
RFC 6265 reference store (refs/cookies.py).  After every step every URL of a
host x scheme x path lattice is queried on a deep copy of the jar (so the query
sweep itself is not part of the history) and compared with the reference.
DESIGN §3 C16.
"""
from __future__ import annotations

import copy
import itertools
import os
import tempfile
import time as _time

from yarl import URL

import aiohttp.cookiejar as cj
from mc import bfs
from refs import cookies as ref

PROPERTY = "C16"

T0 = 1_000_000_000.0  # 2001-09-09T01:46:40Z


class _FakeTime:
    now = T0

    def time(self):
        return _FakeTime.now

    def __getattr__(self, name):
        return getattr(_time, name)


cj.time = _FakeTime()  # the jar reads the clock only through this module global

HOSTS = {"E": "example.com", "S": "sub.example.com", "O": "other.com", "N": "notexample.com", "I": "127.0.0.1"}
QPATHS = ["/", "/a", "/a/", "/a/b", "/ab"]
QUERIES = [(sch, h, p, URL(f"{sch}://{HOSTS[h]}{p}")) for h in HOSTS for sch in ("http", "https") for p in QPATHS]
_TMPDIR = "/dev/shm" if os.path.isdir("/dev/shm") else None


def _date(t):
    return _time.strftime("%a, %d %b %Y %H:%M:%S GMT", _time.gmtime(t))


EXP = {
    "-": (None, None),
    "ma10": ("10", None),
    "ma0": ("0", None),
    "ma-1": ("-1", None),
    "mabad": ("abc", None),
    "past": (None, _date(T0 - 86400)),
    "fut": (None, _date(T0 + 10)),
    "epoch": (None, "Thu, 01 Jan 1970 00:00:00 GMT"),   # the usual deletion idiom
    "mabad+past": ("abc", _date(T0 - 86400)),            # the malformed Max-Age is ignored, Expires applies
    "mabad+fut": ("1x", _date(T0 + 10)),
    # the same instants in shapes other than the canonical one
    "past-nowd": (None, _date(T0 - 86400)[5:]),
    "past-utc": (None, _date(T0 - 86400).replace("GMT", "UTC")),
    "past-nosp": (None, _date(T0 - 86400).replace(", ", ",")),
    "fut-nowd": (None, _date(T0 + 10)[5:]),
    "mahuge": ("9" * 400, None),                         # more seconds than a float holds: a cookie that does not expire
}
DOM = {"-": None, "e": "example.com", ".e": ".example.com", "s": "sub.example.com", "o": "other.com", "com": "com",
       "e.": "example.com.", "E": "EXAMPLE.COM", "n": "notexample.com"}
PATH = {"-": None, "/a": "/a", "/a/": "/a/", "a": "a", "/": "/", "/a//": "/a//", "/a/b/": "/a/b/"}
RPATH = {"/": "/", "/a/b": "/a/b", "/a": "/a"}

# a set-op is the tuple (host, dom, path, rpath, secure, exp, name); base = first value of each dimension
DIMS = [
    ("host", ["E", "S", "O", "N", "I"]),
    ("dom", ["-", "e", ".e", "s", "o", "com", "e.", "E", "n"]),
    ("path", ["-", "/a", "/a/", "a", "/", "/a//", "/a/b/"]),
    ("rpath", ["/", "/a/b", "/a"]),
    ("secure", [0, 1]),
    ("exp", ["-", "ma10", "ma0", "past", "fut", "ma-1", "mabad", "epoch", "mabad+past", "mabad+fut", "mahuge", "past-nowd", "past-utc", "past-nosp", "fut-nowd"]),
    ("name", ["n", "m"]),
    ("val", ["u", "same", "u+flag", "u+kv", "u+h2dom", "u+h2path", "u+h2age"]),
]
QUICK_DIMS = [
    ("host", ["E", "S", "O", "N", "I"]),
    ("dom", ["-", "e", ".e", "s", "com", "e.", "E"]),
    ("path", ["-", "/a", "/a/", "/a//"]),
    ("rpath", ["/", "/a/b"]),
    ("secure", [0, 1]),
    ("exp", ["-", "ma10", "ma0", "past", "epoch", "mabad+past", "mahuge", "past-nowd", "past-utc", "fut-nowd"]),
    ("name", ["n", "m"]),
    # "same": a constant value, so that a re-issued cookie can equal the stored one; "+flag"/"+kv": an attribute this
    # implementation does not know (valueless / with a value) right behind the pair - RFC 6265 5.2: ignored
    # "+h2...": a second Set-Cookie header in the same response that consists of an attribute-like pair only; it is
    # not an attribute of the first header's cookie (aiohttp refuses a cookie with a reserved name: nothing is stored for it)
    ("val", ["u", "same", "u+flag", "u+kv", "u+h2dom", "u+h2path", "u+h2age"]),
]


def set_ops(dims, nvar):
    base = tuple(v[0] for _n, v in dims)
    out = [base]
    for k in range(1, nvar + 1):
        for idxs in itertools.combinations(range(len(dims)), k):
            for alts in itertools.product(*[dims[i][1][1:] for i in idxs]):
                op = list(base)
                for i, a in zip(idxs, alts):
                    op[i] = a
                out.append(tuple(op))
    return [["set"] + list(o) for o in out]


CONTROLS = [["tick", 5], ["tick", 20], ["clear"], ["cleardom", "example.com"], ["cleardom", "sub.example.com"],
            ["saveload"], ["query", "http", "S", "/a/b"], ["query", "https", "E", "/"]]


def value_of(op):
    """Injective, cookie-value-safe encoding of the op (so a delivered value names the Set-Cookie that made it)."""
    if op[-1] == "same":
        return "same"
    return "v" + "x".join("".join(f"{ord(ch):02x}" if not ch.isalnum() else ch for ch in str(x)) for x in op[1:])


def header_of(op):
    _s, host, dom, path, rpath, secure, exp, name, _val = op
    h = f"{name}={value_of(op)}"
    if str(_val).endswith("+flag"):
        h += "; SameParty"
    elif str(_val).endswith("+kv"):
        h += "; Priority=High"
    if DOM[dom] is not None:
        h += f"; Domain={DOM[dom]}"
    if PATH[path] is not None:
        h += f"; Path={PATH[path]}"
    ma, ex = EXP[exp]
    if ma is not None:
        h += f"; Max-Age={ma}"
    if ex is not None:
        h += f"; Expires={ex}"
    if secure:
        h += "; Secure"
    return h


class Sim:
    def __init__(self, config):
        self.config = config
        self.unsafe = bool(config.get("unsafe"))
        kw = {}
        if config.get("secure_origin"):
            kw["treat_as_secure_origin"] = config["secure_origin"]
        self.kw = kw
        self.jar = cj.CookieJar(unsafe=self.unsafe, **kw)
        self.ref = ref.RefStore(unsafe=self.unsafe)
        self.now = T0
        self.problems = []
        self.ops = config["ops"]
        self.ever = set()      # (name, domain, path) keys the reference ever stored
        self.kv_seen = False   # a Set-Cookie with an unknown attribute that has a value went in
        _FakeTime.now = self.now

    def enabled(self):
        return self.ops

    def P(self, sig, msg):
        if self.kv_seen:
            # one cause, one signature: every difference in a history that contains such a header
            sig = "valued-unknown-attribute-becomes-a-cookie"
        self.problems.append(("C16:" + sig, msg))

    def apply_quiet(self, op):
        return self.apply(op, sweep=False)

    def apply(self, op, sweep=True):
        _FakeTime.now = self.now
        kind = op[0]
        try:
            if kind == "set":
                _s, host, dom, path, rpath, secure, exp, name, _val = op
                url = URL(f"http://{HOSTS[host]}{RPATH[rpath]}")
                if str(_val).endswith("+kv"):
                    self.kv_seen = True
                hdrs_ = [header_of(op)]
                second = {"+h2dom": "domain=example.com", "+h2path": "path=/", "+h2age": "max-age=0"}.get(str(_val)[1:])
                if second:
                    hdrs_.append(second)
                self.jar.update_cookies_from_headers(hdrs_, url)
                ma, ex = EXP[exp]
                before = set(self.ref.store)
                self.ref.set_cookie(self.now, HOSTS[host], RPATH[rpath], name, value_of(op), DOM[dom], PATH[path],
                                    bool(secure), ma, ex, log=self.ever)
            elif kind == "tick":
                self.now += op[1]
                _FakeTime.now = self.now
            elif kind == "clear":
                self.jar.clear()
                self.ref.clear()
            elif kind == "cleardom":
                self.jar.clear_domain(op[1])
                self.ref.clear_domain(self.now, op[1])
            elif kind == "saveload":
                fd, p = tempfile.mkstemp(prefix="c16-", suffix=".json", dir=_TMPDIR)
                os.close(fd)
                try:
                    self.jar.save(p)
                    j2 = cj.CookieJar(unsafe=self.unsafe, **self.kw)
                    j2.load(p)
                    self.jar = j2
                finally:
                    os.unlink(p)
            elif kind == "query":
                self.jar.filter_cookies(URL(f"{op[1]}://{HOSTS[op[2]]}{op[3]}"))
            else:
                raise KeyError(kind)
        except Exception as e:  # noqa: BLE001
            self.P(f"exception:{kind}:{type(e).__name__}", f"{op} raised {e!r}")
            return ("raise", type(e).__name__)
        return self.sweep(op) if sweep else None

    def sweep(self, op):
        """Query every lattice URL on a copy of the jar; compare with the reference."""
        snap = copy.deepcopy(self.jar)
        obs = []
        for sch, h, p, qurl in QUERIES:
            host = HOSTS[h]
            try:
                got = {m.key: m.value for m in snap.filter_cookies(qurl).values()}
            except Exception as e:  # noqa: BLE001
                self.P(f"exception:filter_cookies:{type(e).__name__}", f"filter_cookies({sch}://{host}{p}) raised {e!r} after {op}")
                continue
            secure = sch == "https" or (sch, host) in self.config.get("secure_pairs", ())
            want = self.ref.select(self.now, "https" if secure else sch, host, p)
            for name, val in got.items():
                if val not in want.get(name, ()):
                    why = self.ref.why_not(self.now, "https" if secure else sch, host, p, val)
                    self.P(f"oversend:{why}",
                           f"after {op}: request {sch}://{host}{p} carries {name}={val} but the reference store sends {sorted(want.get(name, ()))} ({why}); ref={self.ref.canon()}")
            for name, vals in want.items():
                if name not in got:
                    self.P("undersend:" + self._why_missing(name, vals),
                           f"after {op}: request {sch}://{host}{p} lacks cookie {name} (reference sends {sorted(vals)}); jar={self._jar_canon()}")
            if got:
                obs.append((sch, h, p, tuple(sorted(got.items()))))
        return tuple(obs)

    def _why_missing(self, name, vals):
        """Narrow cause of an under-send, for the violation signature."""
        stored = {m.value for sc in self.jar._cookies.values() for n, m in sc.items() if n == name}
        causes = set()
        for (n, dom, path), c in self.ref.store.items():
            if n != name or c["value"] not in vals:
                continue
            twin = any(n2 == n and d2 == dom and p2 != path and p2.rstrip("/") == path.rstrip("/")
                       for (n2, d2, p2) in self.ever)
            if twin:
                causes.add("path-slash-collision")
            elif c["value"] in stored:
                causes.add("stored-but-not-selected")
            else:
                causes.add("lost")
        return "+".join(sorted(causes))

    def _jar_canon(self):
        j = self.jar
        cookies = tuple(sorted(
            (d, p, n, m.value, m["domain"], m["path"], bool(m["secure"]), m["max-age"], m["expires"])
            for (d, p), sc in j._cookies.items() for n, m in sc.items()))
        cache = tuple(sorted((d, p, n, m.value) for (d, p), dd in j._morsel_cache.items() for n, m in dd.items()))
        exps = tuple(sorted((k, w - T0) for k, w in j._expirations.items()))
        heap = tuple(sorted((w - T0, k) for w, k in j._expire_heap))
        return (cookies, tuple(sorted(j._host_only_cookies)), exps, heap, cache)

    def canon(self):
        rc = tuple((k, v, ho, s, None if e is None else e - T0) for (k, v, ho, s, e) in self.ref.canon())
        return (self.now - T0, rc, self._jar_canon())

    def close(self):
        pass


def make(config):
    return Sim(config)


def _spec(config):
    return {"module": "harness.c16", "factory": "make", "config": config}


def run(ctx):
    ctx.rule = (
        "states = canonical (clock, reference store, jar tables _cookies/_host_only_cookies/_expirations/_expire_heap/_morsel_cache) "
        "reached by histories over Set-Cookie ops (base cookie with <= k varied dimensions out of host, Domain, Path, response path, Secure, "
        "expiry, name), clock ticks, clear, clear_domain, save+load and mutating queries; after every step 50 request URLs "
        "(5 hosts x 2 schemes x 5 paths) are queried on a copy and compared with the RFC 6265 reference; an outcome is a distinct (op, sweep result)"
    )
    ctx.assumptions += [
        "Set-Cookie enters through CookieJar.update_cookies_from_headers (the ClientSession path); clock = aiohttp.cookiejar.time rebound",
        "several same-named cookies matching one request: the jar's mapping can carry one value; it must be one the reference sends",
        "no public-suffix list; IP hosts ignored unless unsafe; trailing-dot Domain ignored (documented aiohttp rules)",
    ]
    if ctx.quick:
        plan = [
            ("two-var/d2", {"ops": set_ops(QUICK_DIMS, 2) + CONTROLS}, 2),
            ("one-var/d4", {"ops": set_ops(QUICK_DIMS, 1) + CONTROLS}, 4),
            ("core/d6", {"ops": CORE + CONTROLS[:6]}, 6),
            ("unsafe/d3", {"ops": set_ops(QUICK_DIMS, 1) + CONTROLS[:2], "unsafe": True}, 3),
        ]
    else:
        # (the value and expiry dimensions grew in the last round: pairs of varied dimensions over the full value lists
        # and depth 3 over the two-variable alphabet no longer fit a thorough run of minutes and were cut back)
        plan = [
            ("two-var/d2", {"ops": set_ops(QUICK_DIMS, 2) + CONTROLS}, 2),
            ("one-var-fulldims/d3", {"ops": set_ops(DIMS, 1) + CONTROLS}, 3),
            ("one-var/d4", {"ops": set_ops(QUICK_DIMS, 1) + CONTROLS}, 4),
            ("core/d7", {"ops": CORE + CONTROLS[:6]}, 7),
            ("unsafe/d3", {"ops": set_ops(DIMS, 1) + CONTROLS[:2], "unsafe": True}, 3),
        ]
    for name, config, depth in plan:
        bfs.bfs(ctx, _spec(config), depth, section=name, batch=20)
    ctx.notes["depth_plan"] = [[n, len(c["ops"]), d] for n, c, d in plan]
    ctx.notes["bound"] = "all histories up to the per-alphabet depth in depth_plan [name, ops, depth]"
    ctx.exhaustive = True


# hand-picked core alphabet for the deepest search: the cookies that collide in the jar's side tables
CORE = [
    ["set", "E", "-", "-", "/", 0, "-", "n", "u"],        # host-only n on /
    ["set", "E", "-", "/a", "/", 0, "ma10", "n", "u"],    # host-only n on /a, expiring
    ["set", "E", "e", "-", "/", 0, "-", "n", "u"],        # domain cookie n on /
    ["set", "E", "e", "/a", "/", 0, "ma10", "n", "u"],    # domain cookie n on /a, expiring
    ["set", "S", "e", "-", "/", 1, "-", "n", "u"],        # parent-domain cookie from the sub-domain, Secure
    ["set", "S", "-", "-", "/", 0, "ma0", "n", "u"],      # deletion of host-only n at sub
    ["set", "E", "-", "-", "/", 0, "ma0", "n", "u"],      # deletion of n at E
    ["set", "E", "e", "-", "/", 0, "-", "n", "same"],     # domain cookie, constant value
    ["set", "E", "-", "-", "/", 0, "-", "n", "same"],     # host-only cookie, same value and attributes
]


def replay(case):
    return bfs.replay_case(case)
