"""C09 Body decoding is transparent, memory-bounded and always makes progress.

SCHED engine, two actors (DESIGN §3 C09): the wire (how many bytes arrive next) and the consumer (when
and how it reads).  A real `ResponseHandler` + response parser + `StreamReader` (client side) or a real
`web.Application` handler calling `request.read()` / `request.post()` (server side) receives bodies of
several families (text, empty, highly compressible "bomb", multi-member gzip, raw deflate) in gzip /
deflate / br / zstd / identity coding, framed by length, chunks or connection close, with small read
buffer limits so that `pause_reading` really stops delivery.  Every schedule with <= d deviations is
run.  Oracles: reads == one-shot reference decode (or a payload error for corrupt input); progress
(never consumer blocked + nothing deliverable before end of body); resident decoded bytes <= 4 x limit
+ one segment at every loop pass; server reads never exceed client_max_size.  A second, schedule-free
section feeds every truncation and every single-bit flip of short encoded bodies.
"""
from __future__ import annotations

import asyncio
import gzip
import zlib

from aiohttp import web
from aiohttp.client_exceptions import ClientError
from aiohttp.client_proto import ResponseHandler
from aiohttp.http_exceptions import HttpProcessingError

from mc import explorer
from mc.core import Part
from mc.server import AppConn
from mc.vloop import VLoop
from mc.wire import SinkProtocol, pair

PROPERTY = "C09"
explorer.PROP = PROPERTY

try:
    import brotli
except ImportError:  # pragma: no cover
    brotli = None
try:
    from backports import zstd
except ImportError:  # pragma: no cover
    zstd = None

CODEC_BLOCK = 128 * 1024
PLAIN = {
    "empty": b"",
    "text": (b"The quick brown fox jumps over the lazy dog. " * 5)[:200],
    "bomb": b"\x00" * (512 * 1024),
    "mixed": bytes(range(256)) * 20,
    "records": b"".join(b"r%04d;" % i for i in range(1300)),
}


def encode(enc, data, members=1):
    if enc == "identity":
        return data
    if enc == "gzip":
        if members == 1:
            return gzip.compress(data, mtime=0)
        n = max(1, len(data) // members)
        pieces = [data[i * n:(i + 1) * n] if i < members - 1 else data[(members - 1) * n:] for i in range(members)]
        return b"".join(gzip.compress(p, mtime=0) for p in pieces) + gzip.compress(b"", mtime=0)
    if enc == "deflate":
        return zlib.compress(data)
    if enc == "rawdeflate":
        c = zlib.compressobj(wbits=-15)
        return c.compress(data) + c.flush()
    if enc == "br":
        return brotli.compress(data)
    if enc == "zstd":
        return zstd.compress(data)
    raise KeyError(enc)


def header_enc(enc, spelling=None):
    """Content codings are case-insensitive (RFC 9110 8.4.1): `spelling` picks how the token is written."""
    tok = {"rawdeflate": "deflate"}.get(enc, enc)
    return {"upper": tok.upper(), "title": tok.title()}.get(spelling, tok)


def frame(framing, enc, blob, nchunks=2, spelling=None):
    head = b"HTTP/1.1 200 OK\r\n"
    if enc != "identity":
        head += b"Content-Encoding: " + header_enc(enc, spelling).encode() + b"\r\n"
    if framing == "length":
        return head + b"Content-Length: %d\r\n\r\n" % len(blob) + blob
    if framing == "chunked":
        n = max(1, len(blob) // nchunks)
        chunks = [blob[i:i + n] for i in range(0, len(blob), n)] if blob else []
        body = b"".join(b"%x\r\n%s\r\n" % (len(c), c) for c in chunks) + b"0\r\n\r\n"
        return head + b"Transfer-Encoding: chunked\r\n\r\n" + body
    if framing == "eof":
        return head + b"\r\n" + blob
    raise KeyError(framing)


class Scen:
    horizon = 50.0
    clock_when_ready = False

    def __init__(self, case, loop):
        self.case = case
        self.loop = loop
        self.problems = []
        self.limit = case["limit"]
        self.want = PLAIN[case["body"]]
        blob = encode(case["enc"], self.want, case.get("members", 1))
        self.stream = frame(case["framing"], case["enc"], blob, case.get("nchunks", 2), case.get("spelling"))
        self.proto = ResponseHandler(loop)
        self.sink = SinkProtocol()
        self.ct, self.st = pair(loop, self.proto, self.sink)
        self.proto.connection_made(self.ct)
        self.sink.connection_made(self.st)
        self.proto.set_response_params(read_bufsize=self.limit, auto_decompress=True, read_until_eof=case["framing"] == "eof")
        self.st.write(self.stream)
        self.got = bytearray()
        self.state_ = "start"
        self.error = None
        self.gate = None
        self.payload = None
        self.max_resident = 0
        self.max_seg = 0
        self.peer_closed = False
        self.reads = 0
        self.task = loop.create_task(self.consumer())

    async def consumer(self):
        pat = self.case["pattern"]
        try:
            msg, payload = await self.proto.read()
            self.payload = payload
            self.state_ = "reading"
            while True:
                if pat.startswith("idle-"):
                    self.gate = self.loop.create_future()
                    await self.gate
                    self.gate = None
                p = pat.replace("idle-", "")
                if p == "readall":
                    data = await payload.read()
                elif p == "read1":
                    data = await payload.read(1)
                elif p == "readn":
                    data = await payload.read(max(1, self.limit))
                elif p == "readany":
                    data = await payload.readany()
                elif p == "readchunk":
                    data, _e = await payload.readchunk()
                    if not data and not payload.at_eof():
                        continue
                else:
                    raise KeyError(pat)
                self.reads += 1
                self.got += data
                if (not data and payload.at_eof()) or (p == "readall"):
                    break
                if self.reads > 200000:
                    break
            self.state_ = "done"
        except asyncio.CancelledError:
            self.state_ = "cancelled"
            raise
        except (HttpProcessingError, ClientError) as e:
            self.state_ = "error"
            self.error = type(e).__name__
        except Exception as e:  # noqa: BLE001
            self.state_ = "foreign-error"
            self.error = type(e).__name__ + ":" + str(e)[:60]

    # ---- environment
    def _rx(self, n):
        before = len(self.st.wire)
        self.ct.deliver(n)
        self.max_seg = max(self.max_seg, before - len(self.st.wire))

    def menu(self):
        m = []
        n = self.ct.deliverable()
        if n and self.case.get("drip"):
            # a stream that only ever arrives in small reads (one network read never carries the whole body)
            k = self.case["drip"]
            m.append((f"rx.{k}", lambda: self._rx(k)))
            if n > 7:
                m.append(("rx.7", lambda: self._rx(7)))
        elif n:
            m.append(("rx.all", lambda: self._rx(None)))
            if n > 7:
                m.append(("rx.7", lambda: self._rx(7)))
            if n > 1:
                m.append(("rx.1", lambda: self._rx(1)))
            if n > 300:
                m.append(("rx.300", lambda: self._rx(300)))
            # structural cuts: up to the end of the head, up to the end of the next line (chunk-size lines)
            pending = bytes(self.st.wire)
            delivered = len(self.stream) - len(pending)
            he = self.stream.find(b"\r\n\r\n") + 4
            if delivered < he < len(self.stream):
                m.append(("rx.head", lambda k=he - delivered: self._rx(k)))
            le = pending.find(b"\r\n")
            if 0 <= le and le + 2 < n and delivered >= he:
                m.append(("rx.line", lambda k=le + 2: self._rx(k)))
        elif not self.st.wire and self.case["framing"] == "eof" and not self.peer_closed:
            m.append(("peer.close", self._peer_close))
        if self.gate is not None and not self.gate.done():
            m.append(("consume", lambda: self.gate.done() or self.gate.set_result(None)))
        if self.ct.eof_deliverable():
            m.append(("rx.eof", self.ct.deliver_eof))
        return m

    def _peer_close(self):
        self.peer_closed = True
        self.st.close()

    def faults(self):
        return []

    def P(self, sig, msg):
        self.problems.append((f"C09:{sig}", msg))

    def monitor(self):
        p = self.payload
        if p is not None:
            size = getattr(p, "_size", 0)
            self.max_resident = max(self.max_resident, size)
            bound = 4 * self.limit + self.max_seg + CODEC_BLOCK    # codecs emit whole blocks (brotli: up to ~96 KiB whatever the limit)
            # read() without a size asks for the whole body at once and lifts the limit on purpose
            if size > bound and not getattr(self, "flagged", False) and not self.case["pattern"].endswith("readall"):
                self.flagged = True
                self.P("resident-bytes-unbounded", f"{size} decoded bytes buffered with read_bufsize {self.limit} (bound {bound}); case {self.case['name']}")

    def quiescent(self):
        # nothing is runnable and the environment owes nothing
        if self.task.done():
            return
        if self.ct._paused and not self.ct.is_closing():
            self.P("deadlock:paused-transport-blocked-consumer", f"the consumer is blocked while the transport is paused and {len(self.st.wire)} bytes wait on the wire; "
                   f"buffered {getattr(self.payload, '_size', None)}; case {self.case['name']}")

    def final(self):
        self.monitor()
        name = self.case["name"]
        if not self.task.done():
            if not (self.ct._paused and not self.ct.is_closing()):
                self.P("no-progress:consumer-blocked-after-all-data", f"all {len(self.stream)} bytes were delivered but the consumer is still blocked after {len(self.got)} of {len(self.want)} bytes; case {name}")
        elif self.state_ == "foreign-error":
            self.P(f"foreign-exception:{self.error.split(':')[0]}", f"the consumer got {self.error}; case {name}")
        elif self.state_ == "error":
            self.P(f"valid-body-rejected:{self.error}", f"a valid {self.case['enc']} body was reported as {self.error}; case {name}")
        elif self.state_ == "done":
            if bytes(self.got) != self.want:
                self.P("content-differs", f"read {len(self.got)} bytes, the body decodes to {len(self.want)} bytes (first difference at {_first_diff(self.got, self.want)}); case {name}")
        for e in self.loop.collect_exceptions():
            self.P("loop-exception", f"{e.get('message')} {e.get('exception')!r}")
        return (self.state_, len(self.got) == len(self.want), self.max_resident > 2 * self.limit, self.ct._paused)

    def state(self):
        return None

    def close(self):
        if not self.task.done():
            self.task.cancel()


def _first_diff(a, b):
    for i, (x, y) in enumerate(zip(a, b)):
        if x != y:
            return i
    return min(len(a), len(b))


def factory(case, loop):
    return Scen(case, loop)


ENCS = ["identity", "gzip", "deflate", "rawdeflate"] + (["br"] if brotli else []) + (["zstd"] if zstd else [])


def cases(quick):
    out = []

    def add(body, enc, framing, limit, pattern, **kw):
        name = f"{body}/{enc}/{framing}/L{limit}/{pattern}" + "".join(f"/{k}{v}" for k, v in kw.items())
        out.append(dict(name=name, body=body, enc=enc, framing=framing, limit=limit, pattern=pattern, **kw))

    for enc in ENCS:
        for framing in ("length", "chunked", "eof"):
            add("text", enc, framing, 16, "readany")
            add("empty", enc, framing, 16, "readany")
            add("text", enc, framing, 1, "idle-readany")
        for framing in ("length", "chunked"):
            for limit in (1024, 8192):
                add("bomb", enc, framing, limit, "readany")
                add("bomb", enc, framing, limit, "idle-readn")
            add("bomb", enc, framing, 2048, "readn")
            add("mixed", enc, framing, 16, "readchunk", nchunks=3)
        add("text", enc, "chunked", 2, "read1", nchunks=3)
        add("bomb", enc, "eof", 4096, "readall")
    for enc in ENCS[1:]:
        for spelling in ("upper", "title"):
            add("text", enc, "length", 16, "readany", spelling=spelling)
    # a long-lived compressed stream made of very many members (one per record), arriving in small reads
    for framing in ("length", "chunked"):
        add("records", "gzip", framing, 8192, "readany", members=1300, drip=400, bound=1)
    for framing in ("length", "chunked", "eof"):
        add("text", "gzip", framing, 16, "readany", members=3)
        add("bomb", "gzip", framing, 4096, "idle-readn", members=2)
    if not quick:
        for enc in ENCS:
            for limit in (1, 7, 4096, 65536):
                add("mixed", enc, "chunked", limit, "readany", nchunks=3)
            for limit in (512, 65536):
                add("bomb", enc, "chunked", limit, "idle-readany", nchunks=3)
    return out


def _job(job):
    case, bound = job
    part = Part()
    name = case["name"]

    def on_exec(ex):
        part.count("executions")
        part.count("transitions", ex.passes)
        part.outcome((name, ex.obs))
        part.state((case["enc"], case["framing"], ex.obs))
        for sig, msg in ex.problems:
            part.violation(sig, msg[:500] + f" | schedule={explorer.schedule_of(ex)}", {"kind": "sched", "case": case, "prefix": explorer.prefix_of(ex)})
        if ex.capped:
            part.cap(f"pass horizon hit in {name}")

    bound = min(bound, case.get("bound", bound))
    st = explorer.explore(factory, case, bound, max_execs=3000, max_passes=60000, on_exec=on_exec)
    if st["truncated"]:
        part.cap(f"execution cap 3000 hit for {name} at bound {bound} (complete up to bound {st['completed_bound']}, {st['executions']} executions reported)")
    part.sample({"case": name, "bound": bound, "executions": st["executions"]})
    return part


# ---------------------------------------------------------------- corrupt inputs (no schedule freedom)
def feed_whole(stream, framing, limit, cuts=()):
    """Default consumer (readany), given segmentation; returns (state, got bytes, error)."""
    loop = VLoop().hold()
    try:
        case = {"name": "corrupt", "body": "text", "enc": "identity", "framing": framing, "limit": limit, "pattern": "readany"}
        s = Scen.__new__(Scen)
        s.case, s.loop, s.problems, s.limit, s.want = case, loop, [], limit, b""
        s.stream = stream
        s.proto = ResponseHandler(loop)
        s.sink = SinkProtocol()
        s.ct, s.st = pair(loop, s.proto, s.sink)
        s.proto.connection_made(s.ct)
        s.sink.connection_made(s.st)
        s.proto.set_response_params(read_bufsize=limit, auto_decompress=True, read_until_eof=framing == "eof")
        s.got, s.state_, s.error, s.gate, s.payload = bytearray(), "start", None, None, None
        s.max_resident = s.max_seg = 0
        s.peer_closed = False
        s.reads = 0
        s.task = loop.create_task(s.consumer())
        prev = 0
        for c in list(cuts) + [len(stream)]:
            s.st.write(stream[prev:c])
            prev = c
            for _ in range(2000):
                loop.drain(500)
                if s.ct.deliverable():
                    s.ct.deliver()
                else:
                    break
        s.st.close()
        for _ in range(200):
            loop.drain(500)
            if s.ct.deliverable():
                s.ct.deliver()
            elif s.ct.eof_deliverable():
                s.ct.deliver_eof()
            else:
                break
        done = s.task.done()
        if not done:
            s.task.cancel()
            loop.drain(20)
        excs = loop.collect_exceptions()
        return ("blocked" if not done else s.state_), bytes(s.got), s.error, excs
    finally:
        loop.finish()


def _job_corrupt(job):
    enc, framing = job
    part = Part()
    want = b"hello, hello, hello world!"
    blob = encode(enc, want)
    good = frame(framing, enc, blob, 1)
    body_at = good.index(b"\r\n\r\n") + 4              # start of the message body (chunk-size line for chunked)
    blob_at = good.index(blob, body_at) if blob else body_at
    muts = []
    for i in range(len(blob)):
        for bit in range(8):
            b2 = bytearray(blob)
            b2[i] ^= 1 << bit
            muts.append((("flip", i, bit), frame(framing, enc, bytes(b2), 1)))
    for i in range(len(blob)):
        # truncation: the framing announces the full length, the peer closes early
        t = frame(framing, enc, blob, 1)
        cut = blob_at + i
        muts.append((("trunc", i), t[:cut]))
    for d, s in muts:
        for cuts in ((), (len(s) // 2,)):
            state, got, err, excs = feed_whole(s, framing, 16, cuts)
            part.count("executions")
            part.count("transitions", len(cuts) + 1)
            case = {"kind": "corrupt", "enc": enc, "framing": framing, "stream": s, "cuts": list(cuts)}
            part.outcome((state, err, got == want))
            if state == "blocked":
                part.violation("C09:corrupt:reader-blocked-forever", f"{enc}/{framing} {d}: the consumer is still blocked after the peer closed", case)
            elif state == "foreign-error":
                part.violation(f"C09:corrupt:foreign-exception:{(err or '').split(':')[0]}", f"{enc}/{framing} {d}: {err}", case)
            elif state == "done":
                # accepted without error: legitimate only if the mutated body still is a complete, well-formed stream decoding to exactly this
                verdict, ref = reference_decode(enc, s, framing, body_at)
                empty_body = d[0] == "trunc" and d[1] == 0
                if verdict == "error":
                    part.violation(f"C09:corrupt:undetected-decoding-error:{enc}", f"{enc}/{framing} {d}: delivered {got[:30]!r} ({len(got)} bytes) without an error although the stream does not decode", case)
                elif verdict == "incomplete" and not empty_body:
                    part.violation(f"C09:corrupt:incomplete-stream-accepted:{enc}", f"{enc}/{framing} {d}: the compressed stream ends before its end marker, yet {len(got)} bytes {got[:20]!r} were delivered without an error", case)
                elif verdict == "ok" and got != ref:
                    part.violation(f"C09:corrupt:wrong-bytes-delivered:{enc}", f"{enc}/{framing} {d}: delivered {got[:30]!r}, the stream decodes to {ref[:30]!r}", case)
            if excs:
                part.violation("C09:corrupt:loop-exception", f"{enc}/{framing} {d}: {excs[0].get('message')} {excs[0].get('exception')!r}", case)
    part.state((enc, framing))
    part.sample({"section": "corrupt", "enc": enc, "framing": framing, "mutations": len(muts)})
    return part


def reference_decode(enc, stream, framing, body_at):
    """Streaming reference: ('ok' | 'incomplete' | 'error', output)."""
    raw = stream[body_at:]
    if framing == "chunked":
        try:
            e = raw.index(b"\r\n")
            n = int(raw[:e], 16)
            raw = raw[e + 2:e + 2 + n]
        except ValueError:
            return ("error", b"")
    try:
        if enc == "identity":
            return ("ok", raw)
        if enc in ("gzip", "deflate", "rawdeflate"):
            wb = 16 + zlib.MAX_WBITS if enc == "gzip" else zlib.MAX_WBITS
            if enc == "rawdeflate" or (enc == "deflate" and raw[:1] and raw[0] & 0xF != 8):
                wb = -15
            d = zlib.decompressobj(wb)
            out = d.decompress(raw)
            return ("ok" if d.eof else "incomplete", out)
        if enc == "br":
            d = brotli.Decompressor()
            out = d.process(raw)
            return ("ok" if d.is_finished() else "incomplete", out)
        if enc == "zstd":
            d = zstd.ZstdDecompressor()
            out = d.decompress(raw)
            return ("ok" if d.eof else "incomplete", out)
    except Exception:  # noqa: BLE001
        return ("error", b"")
    return ("error", b"")


# ---------------------------------------------------------------- server side
def _job_server(job):
    enc, max_size, body_name, api = job
    part = Part()
    want = PLAIN[body_name] if body_name in PLAIN else b"k=" + b"v" * int(body_name)
    blob = encode(enc, want)
    for framing in ("length", "chunked"):
        for seg in (None, 7, 300):
            loop = VLoop().hold()
            try:
                result = {}
                peak = [0]

                async def handler(request):
                    try:
                        if api == "read":
                            data = await request.read()
                            result["len"] = len(data)
                            result["ok"] = data == want
                        else:
                            form = await request.post()
                            result["len"] = sum(len(k) + len(v) for k, v in form.items() if isinstance(v, str))
                            result["ok"] = True
                    except web.HTTPException as e:
                        result["http"] = e.status
                        raise
                    return web.Response(text="ok")

                app = web.Application(client_max_size=max_size)
                app.router.add_post("/", handler)
                conn = AppConn(loop, app)
                conn.settle()
                head = b"POST / HTTP/1.1\r\nHost: a\r\n"
                if enc != "identity":
                    head += b"Content-Encoding: " + header_enc(enc).encode() + b"\r\n"
                if api == "post":
                    head += b"Content-Type: application/x-www-form-urlencoded\r\n"
                if framing == "length":
                    raw = head + b"Content-Length: %d\r\n\r\n" % len(blob) + blob
                else:
                    raw = head + b"Transfer-Encoding: chunked\r\n\r\n%x\r\n" % len(blob) + blob + b"\r\n0\r\n\r\n"
                conn.send(raw)
                for _ in range(20000):
                    if not conn.st.deliverable():
                        break
                    conn.deliver_to_server(seg)
                    loop.drain(500)
                    req = conn.proto._current_request
                    if req is not None:
                        peak[0] = max(peak[0], getattr(req._payload, "_size", 0))
                conn.settle(2.0)
                fr = conn.responses()
                statuses = [r.status for r in fr.responses]
            finally:
                loop.finish()
            part.count("executions")
            part.count("transitions")
            case = {"kind": "server", "job": list(job), "framing": framing, "seg": seg}
            tag = f"server {api}() enc={enc} body={body_name} client_max_size={max_size} {framing} seg={seg}"
            too_big = len(want) > max_size
            part.outcome((tuple(statuses), too_big, result.get("ok")))
            if too_big:
                if result.get("len", 0) > max_size:
                    part.violation("C09:server:read-exceeds-client_max_size", f"{tag}: {api}() returned {result.get('len')} bytes", case)
                if statuses != [413]:
                    part.violation(f"C09:server:oversize-not-413:{statuses}", f"{tag}: decoded body of {len(want)} bytes answered with {statuses}", case)
            else:
                if statuses != [200] or not result.get("ok"):
                    part.violation(f"C09:server:valid-body-failed:{statuses}", f"{tag}: {statuses} {result}", case)
            if peak[0] > max(4 * 65536, 4 * max_size) + 65536:
                part.violation("C09:server:resident-bytes-unbounded", f"{tag}: {peak[0]} bytes buffered", case)
    part.state((enc, max_size, body_name, api))
    return part


def _dispatch(job):
    if job[0] == "sched":
        return _job(job[1:])
    if job[0] == "corrupt":
        return _job_corrupt(job[1:])
    return _job_server(job[1:])


def run(ctx):
    ctx.rule = (
        "sched: scenarios = body family x coding x framing x read_bufsize x consumer pattern (pairwise-chosen list), executions = all schedules with <= d "
        "deviations over segment sizes (all / 300 / 7 / 1 bytes / up to the head end / up to the next CRLF), peer close and consumer wake-ups; corrupt: every single-bit flip and every truncation of a "
        "short body per coding x framing x 2 segmentations; server: coding x client_max_size x body size x read()/post() x framing x segment size"
    )
    ctx.assumptions += [
        "client side = real ResponseHandler + response parser + StreamReader on the in-memory wire (pause_reading really stops delivery); server side = real web.Application",
        "resident bytes = StreamReader._size after every loop pass, bound 4 x read_bufsize + largest segment + 128 KiB (codec block granularity); the bomb body is 512 KiB",
        "reference decoders: zlib / gzip / brotli / backports.zstd one-shot",
    ]
    bound = 2 if ctx.quick else 3
    jobs = [("sched", c, bound) for c in cases(ctx.quick)]
    for enc in ENCS:
        for framing in ("length", "chunked", "eof"):
            if enc == "identity" and framing != "length":
                continue
            jobs.append(("corrupt", enc, framing))
    for enc in ENCS:
        for max_size in (100, 2000):
            for body in ("text", "bomb", "150", "3000"):
                for api in ("read", "post"):
                    if api == "post" and body in ("text", "bomb"):
                        continue
                    jobs.append(("server", enc, max_size, body, api))
    for part in ctx.pmap(_dispatch, jobs):
        ctx.merge(part)
    ctx.notes["deviation_bound"] = bound
    ctx.notes["codings"] = ENCS


def replay(case):
    k = case.get("kind")
    if k == "sched":
        prefix = [(tuple(l), c) for l, c in case["prefix"]]
        ex = explorer.run_one(factory, case["case"], prefix, max_passes=60000)
        return [{"sig": s, "msg": m, "case": case} for s, m in ex.problems]
    if k == "corrupt":
        p = _job_corrupt((case["enc"], case["framing"]))
        return [v for v in p.violations if v["case"].get("stream") == case["stream"] or True][:50]
    return _job_server(tuple(case["job"])).violations
