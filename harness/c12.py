"""C12 WebSocket reader enforces the protocol and its size bounds.

STREAM engine: all sequences (<= depth) of frame tokens - valid frames of every
kind and one token per violation class of the statement, so every violation
appears at every position and in every message phase - are concatenated, fed to
the real `WebSocketReader` whole and under every single cut (every pair of cuts
and byte-at-a-time in the deeper tiers), for each configuration (compress,
decode_text, max_msg_size).  Oracles: the RFC 6455/7692 reference decoder of
refs/ws.py on the same bytes, the un-cut run for every segmentation, and a
retained-bytes monitor after every feed.  DESIGN §3 C12.
"""
from __future__ import annotations

import itertools
import zlib

from aiohttp._websocket.reader_py import WebSocketDataQueue, WebSocketReader
from aiohttp.base_protocol import BaseProtocol  # noqa: F401
from aiohttp.http_websocket import WebSocketError, WSMsgType
from aiohttp.streams import EofStream

from mc.core import Part
from refs import ws as ref

PROPERTY = "C12"
F = ref.frame
M = b"\x11\x22\x33\x44"


class _Proto:
    """What the data queue needs from a BaseProtocol."""

    def __init__(self):
        self._reading_paused = False
        self.pauses = 0

    def pause_reading(self):
        self._reading_paused = True
        self.pauses += 1

    def resume_reading(self):
        self._reading_paused = False


def tokens(cfg):
    """name -> bytes.  Valid frames first, then one token per violation class."""
    mx = cfg["max_msg_size"]
    T = {}
    # ---- valid
    T["text"] = F(1, b"hi")
    T["text-m"] = F(1, b"hi", mask=M)
    T["text-utf8"] = F(1, "é€".encode())
    T["text0"] = F(1, b"he", fin=0)
    T["text0-empty"] = F(1, b"", fin=0)
    T["text0-utf8half"] = F(1, b"\xc3", fin=0)          # first half of 'é': valid once continued with \xa9
    T["cont1"] = F(0, b"llo")
    T["cont1-utf8half"] = F(0, b"\xa9")
    T["cont1-empty"] = F(0, b"")
    T["cont0"] = F(0, b"l", fin=0)
    T["cont0-empty"] = F(0, b"", fin=0)
    T["bin"] = F(2, b"\x00\xff\x80")
    T["bin0"] = F(2, b"\x01", fin=0)
    T["bin-empty"] = F(2, b"")
    T["ping"] = F(9, b"p")
    T["ping-m"] = F(9, b"pm", mask=M)
    T["ping125"] = F(9, b"x" * 125)
    T["pong"] = F(10, b"")
    T["close"] = F(8, b"\x03\xe8bye")
    T["close-empty"] = F(8, b"")
    T["close-3000"] = F(8, b"\x0b\xb8")
    T["close-1014"] = F(8, b"\x03\xf6")
    T["text-len16"] = F(1, b"a" * 5, lenenc=16)          # non-minimal length encoding (tolerated)
    T["bin126"] = F(2, b"b" * 126)
    # ---- violations
    T["!rsv2"] = F(1, b"hi", rsv=2)
    T["!rsv3"] = F(2, b"hi", rsv=1)
    T["!rsv1-ping"] = F(9, b"", rsv=4)
    T["!rsv1-cont"] = F(0, b"x", rsv=4)
    T["!op3"] = F(3, b"x")
    T["!opB"] = F(0xB, b"")
    T["!ping-frag"] = F(9, b"p", fin=0)
    T["!close-frag"] = F(8, b"", fin=0)
    T["!ping126"] = F(9, b"x" * 126)
    T["!ping-len64"] = F(9, b"", lenenc=64, declared=70000)
    T["!text-badutf8"] = F(1, b"\xff\xfe")
    T["!text-overlong"] = F(1, b"\xc0\xaf")
    T["!text-surrogate"] = F(1, b"\xed\xa0\x80")
    T["!close-1byte"] = F(8, b"\x03")
    T["!close-999"] = F(8, b"\x03\xe7")
    T["!close-1004"] = F(8, b"\x03\xec")
    T["!close-1005"] = F(8, b"\x03\xed")
    T["!close-1006"] = F(8, b"\x03\xee")
    T["!close-1015"] = F(8, b"\x03\xf7")
    T["!close-2999"] = F(8, b"\x0b\xb7")
    T["!close-5000"] = F(8, b"\x13\x88")
    T["!close-badutf8"] = F(8, b"\x03\xe8\xff")
    T["!len-msb"] = F(2, b"", lenenc=64, declared=1 << 63)
    if mx:
        for d in (-1, 0, 1):
            n = mx + d
            if n >= 0:
                T[("!" if d > 0 else "") + f"bin-max{d:+d}"] = F(2, b"z" * n)
        T["bin0-half"] = F(2, b"y" * (mx // 2), fin=0)
        T["cont1-half"] = F(0, b"y" * (mx - mx // 2))          # together exactly max
        T["!cont1-half+1"] = F(0, b"y" * (mx - mx // 2 + 1))   # together max+1
        T["!text-huge-declared"] = F(1, b"", lenenc=64, declared=1 << 40)
    else:
        T["bin-64k"] = F(2, b"k" * 65536)
    if cfg["compress"]:
        z = ref.deflate_message
        T["ztext"] = F(1, z(b"hello hello"), rsv=4)
        T["ztext0"] = F(1, z(b"hello world")[:4], fin=0, rsv=4)
        T["zcont1"] = F(0, z(b"hello world")[4:])
        T["zbin-empty"] = F(2, z(b""), rsv=4)
        T["!zgarbage"] = F(2, b"\xff\xff\xff\xff\xff", rsv=4)
        if mx:
            T["zbin-max"] = F(2, z(b"\x00" * mx), rsv=4)
            T["!zbomb"] = F(2, z(b"\x00" * (mx * 40 + 1000)), rsv=4)
            T["!zbomb0"] = F(2, z(b"\x00" * (mx * 40 + 1000))[:3], fin=0, rsv=4)
            T["zbombcont"] = F(0, z(b"\x00" * (mx * 40 + 1000))[3:])
    return T


CONFIGS = [
    {"compress": False, "decode_text": True, "max_msg_size": 64},
    {"compress": True, "decode_text": True, "max_msg_size": 64},
    {"compress": False, "decode_text": False, "max_msg_size": 8},
    {"compress": True, "decode_text": True, "max_msg_size": 8},
    {"compress": False, "decode_text": True, "max_msg_size": 0},
    {"compress": True, "decode_text": False, "max_msg_size": 0},
    {"compress": True, "decode_text": True, "max_msg_size": 4 * 1024 * 1024},
]


def _conv(m):
    t = m.type
    if t == WSMsgType.TEXT:
        return ("text", m.data)
    if t == WSMsgType.BINARY:
        return ("binary", bytes(m.data))
    if t == WSMsgType.PING:
        return ("ping", bytes(m.data))
    if t == WSMsgType.PONG:
        return ("pong", bytes(m.data))
    if t == WSMsgType.CLOSE:
        return ("close", m.data, m.extra)
    return ("other", repr(m))


def _drain(q, msgs):
    """What the application gets from the queue right now, through the call read() makes: the queued messages,
    then - once the stream has ended - the terminal exception."""
    while True:
        if not q._buffer and not q._eof:
            return None                      # read() would wait here
        try:
            msgs.append(_conv(q._read_from_buffer()))
        except WebSocketError as e:
            return ("WebSocketError", e.code)
        except EofStream:
            return ("EofStream", None)
        except BaseException as e:  # noqa: BLE001
            return (type(e).__name__, None)


def run_reader(stream, cuts, cfg, monitor=None, consume="end", eof=False):
    """consume: "end" = the application reads only after the last feed, "prompt" = after every feed.
    eof: the connection ends (feed_eof) after the last byte, before the final read."""
    proto = _Proto()
    q = WebSocketDataQueue(proto, 2 ** 16, loop=None)
    r = WebSocketReader(q, cfg["max_msg_size"], cfg["compress"], cfg["decode_text"])
    prev = 0
    n_at_error = None
    worst = 0
    msgs = []
    term = None
    for c in list(cuts) + [len(stream)]:
        seg = stream[prev:c]
        prev = c
        try:
            r.feed_data(seg)
        except BaseException as e:  # noqa: BLE001
            return {"crash": (type(e).__name__, str(e)[:80])}
        if r._exc is not None and n_at_error is None:
            n_at_error = len(q._buffer) + len(msgs)
        kept = len(r._partial) + sum(len(f) for f in r._payload_fragments) + len(r._tail)
        worst = max(worst, kept)
        if consume == "prompt" and term is None:
            term = _drain(q, msgs)
    if eof:
        try:
            r.feed_eof()
        except BaseException as e:  # noqa: BLE001
            return {"crash": (type(e).__name__, "feed_eof: " + str(e)[:70])}
    total_after = len(q._buffer) + len(msgs)
    if term is None:
        term = _drain(q, msgs)
    err = None
    if term is not None and term[0] != "EofStream":
        err = term
    return {"msgs": msgs, "err": err, "term": term, "after_error": None if n_at_error is None else total_after - n_at_error,
            "kept": worst, "paused": proto.pauses}


def upto_close(msgs):
    out = []
    for m in msgs:
        out.append(m)
        if m[0] == "close":
            break
    return out


def check_stream(part: Part, names, stream, cfg, two_cuts, bytewise):
    case = {"tokens": list(names), "cfg": cfg}
    base = run_reader(stream, (), cfg)
    part.count("executions")
    part.count("transitions")
    if "crash" in base:
        part.violation(f"C12:exception-escapes:{base['crash'][0]}", f"feed_data raised {base['crash']} for {names} {cfg}", dict(case, cuts=[]))
        return
    want_msgs, viol = ref.decode(stream, cfg["compress"], cfg["max_msg_size"], cfg["decode_text"])
    got = upto_close(base["msgs"])
    closed = bool(want_msgs) and want_msgs[-1][0] == "close"
    # ---- agreement with the reference on the un-cut stream
    if viol is None:
        if got != want_msgs:
            part.violation("C12:messages-differ", f"{names} {cfg}: reader delivered {got[:4]!r}, reference {want_msgs[:4]!r}", dict(case, cuts=[]))
        elif base["err"] is not None and not closed:
            part.violation(f"C12:valid-rejected:{base['err'][1]}", f"{names} {cfg}: valid stream rejected with {base['err']}", dict(case, cuts=[]))
    else:
        if got[:len(want_msgs)] != want_msgs:
            part.violation("C12:messages-before-violation-differ", f"{names} {cfg}: delivered {got[:4]!r}, reference {want_msgs[:4]!r} then {viol.why}",
                           dict(case, cuts=[]))
        elif len(got) > len(want_msgs):
            part.violation(f"C12:violation-accepted[{viol.why}]", f"{names} {cfg}: reader delivered {got[len(want_msgs):][:2]!r} at/after the violation '{viol.why}'",
                           dict(case, cuts=[]))
        elif base["err"] is None:
            part.violation(f"C12:violation-not-reported[{viol.why}]", f"{names} {cfg}: no error for '{viol.why}'", dict(case, cuts=[]))
        elif viol.codes and (base["err"][0] != "WebSocketError" or base["err"][1] not in viol.codes):
            part.violation(f"C12:wrong-close-code[{viol.why}]:{base['err'][1]}", f"{names} {cfg}: error {base['err']} for '{viol.why}', specified {sorted(viol.codes)}",
                           dict(case, cuts=[]))
    if base["after_error"]:
        part.violation("C12:delivered-after-error", f"{names} {cfg}: {base['after_error']} messages queued after the error", dict(case, cuts=[]))
    part.outcome((tuple(m[0] for m in got), base["err"]))
    part.state((tuple(m[0] for m in got), base["err"], cfg["compress"], cfg["max_msg_size"]))
    # ---- what the application sees must not depend on when it reads, nor be masked by the end of the connection
    for consume, eof in (("prompt", False), ("end", True), ("prompt", True)):
        for cuts in ((), tuple(range(1, len(stream))) if len(stream) <= 64 else ()):
            o = run_reader(stream, cuts, cfg, consume=consume, eof=eof)
            part.count("executions")
            part.count("transitions", len(cuts) + 1)
            how = f"consumer={consume} eof={eof} cuts={'bytewise' if cuts else 'none'}"
            if "crash" in o:
                part.violation(f"C12:exception-escapes:{o['crash'][0]}", f"{o['crash']} for {names} ({how})", dict(case, cuts=list(cuts), consume=consume, eof=eof))
                continue
            if o["msgs"] != base["msgs"]:
                part.violation("C12:consumer-dependent:messages", f"{names} {cfg} ({how}): application got {o['msgs'][:3]!r}, reading at the end gives {base['msgs'][:3]!r}",
                               dict(case, cuts=list(cuts), consume=consume, eof=eof))
            elif o["err"] != base["err"]:
                part.violation("C12:consumer-dependent:error" if not eof else "C12:violation-masked-by-eof",
                               f"{names} {cfg} ({how}): stream ends for the application with {o['term']}, without eof/at the end with {base['term']}",
                               dict(case, cuts=list(cuts), consume=consume, eof=eof))
            elif eof and base["err"] is None and o["term"] != ("EofStream", None) and not closed:
                part.violation("C12:eof-not-reported", f"{names} {cfg} ({how}): after feed_eof the application gets {o['term']}", dict(case, cuts=list(cuts), consume=consume, eof=eof))
    # ---- segmentation independence + retained bytes
    n = len(stream)
    gens = [((i,) for i in range(1, n))]
    if two_cuts and n <= 60:
        gens.append(itertools.combinations(range(1, n), 2))
    if bytewise:
        gens.append([tuple(range(1, n))])
    bound = cfg["max_msg_size"] + 125 + 14 if cfg["max_msg_size"] else None
    for g in gens:
        for cuts in g:
            o = run_reader(stream, cuts, cfg)
            part.count("executions")
            part.count("transitions", len(cuts) + 1)
            if "crash" in o:
                part.violation(f"C12:exception-escapes:{o['crash'][0]}", f"feed_data raised {o['crash']} for {names} cuts {cuts}", dict(case, cuts=list(cuts)))
                continue
            if o["msgs"] != base["msgs"] or o["err"] != base["err"]:
                part.violation("C12:segmentation-dependent", f"{names} {cfg} cuts={list(cuts)[:4]}: {o['msgs'][:3]!r} {o['err']} vs un-cut {base['msgs'][:3]!r} {base['err']}",
                               dict(case, cuts=list(cuts)))
            if o["after_error"]:
                part.violation("C12:delivered-after-error", f"{names} {cfg} cuts={list(cuts)[:4]}: messages queued after the error", dict(case, cuts=list(cuts)))
            if bound is not None and o["kept"] > bound:
                part.violation("C12:retained-bytes-unbounded", f"{names} {cfg} cuts={list(cuts)[:4]}: {o['kept']} bytes retained, bound {bound}",
                               dict(case, cuts=list(cuts)))


HISTORY_N = 1300        # more frames than the smallest fragment cap (1024)


def history_check(part: Part, cfg, shape):
    """One long-lived connection: HISTORY_N small frames, each arriving as `shape` says, read by a prompt consumer.
    State left behind by one frame must not accumulate over the life of the connection."""
    kind, masked, cut = shape
    proto = _Proto()
    q = WebSocketDataQueue(proto, 2 ** 16, loop=None)
    r = WebSocketReader(q, cfg["max_msg_size"], cfg["compress"], cfg["decode_text"])
    op = {"binary": 2, "text": 1, "ping": 9}[kind]
    payload = b"x" * (1 if cut != "mid" else 4)
    frame = F(op, payload, mask=M if masked else None)
    hdr = len(frame) - len(payload)
    cutpos = {"header|payload": hdr, "header-1": hdr - 1, "mid": hdr + 2, "whole": None}[cut]
    case = {"kind": "history", "cfg": cfg, "shape": list(shape)}
    got = 0
    for i in range(HISTORY_N):
        for seg in ([frame] if cutpos is None else [frame[:cutpos], frame[cutpos:]]):
            try:
                r.feed_data(seg)
            except BaseException as e:  # noqa: BLE001
                part.violation(f"C12:exception-escapes:{type(e).__name__}", f"history {shape} frame {i}: {e!r}", case)
                return
            if proto._reading_paused and not q._buffer:
                part.violation("C12:history:reader-stalls-connection",
                               f"{cfg} {shape}: after frame {i} the reader paused the transport with nothing queued for the application - "
                               f"nothing will ever resume it ({len(r._payload_fragments)} retained fragments)", case)
                return
        while q._buffer:
            m = q._read_from_buffer()
            if bytes(m.data if not isinstance(m.data, str) else m.data.encode()) != payload:
                part.violation("C12:history:payload-differs", f"{cfg} {shape}: frame {i} delivered as {m.data!r}", case)
                return
            got += 1
        held = len(r._partial) + sum(len(f) for f in r._payload_fragments) + len(r._tail) + 8 * len(r._payload_fragments)
        if held > 64:
            part.violation("C12:history:retained-state-grows",
                           f"{cfg} {shape}: {held} bytes of reader state (incl. list slots) retained between frames after {i + 1} frames", case)
            return
    part.count("executions")
    part.count("transitions", HISTORY_N)
    part.state(("history", repr(cfg), shape))
    part.outcome(("history", got))
    if got != HISTORY_N:
        part.violation("C12:history:messages-lost", f"{cfg} {shape}: {got} of {HISTORY_N} frames delivered", case)


def absent_consumer_check(part: Part, cfg, kind, size):
    """The application does not read.  Whatever the frames look like (also empty ones), the queue must ask the
    transport to pause after a bounded number of them: what is retained for the application is bounded too."""
    limit = 8
    proto = _Proto()
    q = WebSocketDataQueue(proto, limit, loop=None)
    r = WebSocketReader(q, cfg["max_msg_size"], cfg["compress"], cfg["decode_text"])
    op = {"binary": 2, "text": 1, "ping": 9, "pong": 10}[kind]
    frame = F(op, b"x" * size)
    case = {"kind": "absent", "cfg": cfg, "shape": [kind, size]}
    bound = 2 * limit + 2          # one-byte messages fill twice the limit (the queue's own rule), plus the one that trips it
    for i in range(HISTORY_N):
        try:
            r.feed_data(frame)
        except BaseException as e:  # noqa: BLE001
            part.violation(f"C12:exception-escapes:{type(e).__name__}", f"absent consumer {kind}/{size} frame {i}: {e!r}", case)
            return
        if len(q._buffer) > bound and not proto._reading_paused:
            part.violation(f"C12:history:queue-grows-unpaused:{kind}:{size}",
                           f"{cfg}: {len(q._buffer)} {kind} messages of {size} byte(s) are queued for an application that does not read "
                           f"(queue limit {limit}) and the transport was never asked to pause", case)
            return
        if proto._reading_paused:
            break
    part.count("executions")
    part.count("transitions", i + 1)
    part.outcome(("absent", kind, size, len(q._buffer)))


def after_violation_check(part: Part, cfg, bad):
    """Through the real client protocol: once the reader has failed, what the peer keeps sending is nobody's, and must
    not pile up in the protocol either."""
    from aiohttp.client_proto import ResponseHandler

    from mc.vloop import VLoop
    from mc.wire import SinkProtocol, pair

    loop = VLoop().hold()
    try:
        proto = ResponseHandler(loop)
        sink = SinkProtocol()
        ct, _st = pair(loop, proto, sink)
        proto.connection_made(ct)
        proto.set_response_params()
        proto.data_received(b"HTTP/1.1 101 Switching Protocols\r\nUpgrade: websocket\r\nConnection: upgrade\r\n\r\n")
        q = WebSocketDataQueue(proto, 2 ** 16, loop=loop)
        proto.set_parser(WebSocketReader(q, cfg["max_msg_size"], cfg["compress"], cfg["decode_text"]), q)
        case = {"kind": "after-violation", "cfg": cfg, "shape": [bad]}
        proto.data_received(F(1, b"ok"))
        proto.data_received({"op15": bytes([0x8F, 0x00]), "close": F(8, b"\x03\xe8"), "ping-frag": bytes([0x09, 0x00])}[bad])
        for i in range(HISTORY_N):
            try:
                proto.data_received(F(2, b"y" * 100))
            except BaseException as e:  # noqa: BLE001
                part.violation(f"C12:exception-escapes:{type(e).__name__}", f"after {bad}: {e!r}", case)
                return
            held = len(proto._tail)
            if held > 1024:
                part.violation(f"C12:history:retained-after-the-end:{bad}",
                               f"{cfg}: {held} bytes received after the {bad} frame ended the stream are kept by the client protocol "
                               f"(after {i + 1} further frames); nothing will ever read them", case)
                return
        got = []
        _drain(q, got)
        part.count("executions")
        part.count("transitions", HISTORY_N)
        part.outcome(("after-violation", bad, len(got)))
        # (frames behind a Close frame stay in the queue, which has its own bound; ws.receive() does not hand them out)
        if bad != "close" and len(got) != 1:
            part.violation("C12:history:delivered-after-the-end", f"{cfg}: {len(got)} messages delivered around a {bad} frame, 1 expected", case)
    finally:
        loop.finish()


# ---------------------------------------------------------------- "without a negotiated extension": the real handshakes
class _Env:
    def connect_gate(self, req):
        return None

    def new_peer(self, req, index):
        from mc.client import ScriptPeer
        return ScriptPeer(self, index, req.connection_key)

    def on_acquire(self, proto, req):
        pass


OFFERS = {
    "none": None,
    "deflate": "permessage-deflate",
    "deflate-cmw": "permessage-deflate; client_max_window_bits",
    "deflate-smw8": "permessage-deflate; server_max_window_bits=8",     # a window zlib cannot do: declined
    "unknown": "x-webkit-deflate-frame",
}


def negotiation_check(part: Part, side, ours, theirs):
    """The reader an endpoint really builds after its handshake: RSV1 is acceptable exactly when the handshake that went
    over the wire agreed on permessage-deflate.  side: which end is aiohttp; ours: its compress option; theirs: what
    the scripted peer offers (to a server) or answers (to a client)."""
    import base64
    import hashlib

    import aiohttp
    from aiohttp import ClientTimeout, web

    from mc.client import WireConnector
    from mc.server import AppConn
    from mc.vloop import VLoop

    GUID = b"258EAFA5-E914-47DA-95CA-C5AB0DC85B11"
    KEY = b"dGhlIHNhbXBsZSBub25jZQ=="
    case = {"kind": "negotiation", "cfg": {}, "shape": [side, ours, theirs]}
    loop = VLoop().hold()
    got = []
    holder = {}
    try:
        co = zlib.compressobj(wbits=-15)
        z = co.compress(b"hello") + co.flush(zlib.Z_SYNC_FLUSH)
        z = z[:-4]

        async def receiver(ws):
            for _ in range(3):
                m = await ws.receive()
                got.append((m.type.name, m.data if not isinstance(m.data, (bytes, bytearray)) else bytes(m.data), getattr(m, "extra", None)))
                if m.type.name in ("CLOSE", "CLOSED", "CLOSING", "ERROR"):
                    break

        if side == "server":
            async def handler(request):
                ws = web.WebSocketResponse(compress=ours, timeout=1.0)
                await ws.prepare(request)
                holder["ws"] = ws
                await receiver(ws)
                return ws

            app = web.Application()
            app.router.add_get("/ws", handler)
            conn = AppConn(loop, app)
            ext = (b"Sec-WebSocket-Extensions: " + OFFERS[theirs].encode() + b"\r\n") if OFFERS[theirs] else b""
            conn.send(b"GET /ws HTTP/1.1\r\nHost: a\r\nUpgrade: websocket\r\nConnection: Upgrade\r\n" + ext +
                      b"Sec-WebSocket-Key: " + KEY + b"\r\nSec-WebSocket-Version: 13\r\n\r\n")
            conn.deliver_to_server()
            loop.drain(300)
            conn.ct.deliver() if conn.ct.deliverable() else None
            head = bytes(conn.client.received).split(b"\r\n\r\n")[0].lower()
            agreed = b"sec-websocket-extensions: permessage-deflate" in head
            if b" 101 " not in head.split(b"\r\n")[0] + b" ":
                part.violation("C12:negotiation:handshake-fails", f"server compress={ours} offer={theirs}: {head[:80]!r}", case)
                return
            send = lambda data: (conn.send(data), conn.deliver_to_server(), loop.drain(300))
            mask = M
        else:
            env = _Env()
            connector = WireConnector(env, limit=4)
            session = aiohttp.ClientSession(connector=connector, timeout=ClientTimeout(total=None), cookie_jar=aiohttp.DummyCookieJar())

            async def client_main():
                try:
                    ws = await session.ws_connect("http://a.test/ws", compress=ours)
                except Exception as e:  # noqa: BLE001
                    holder["connect_error"] = type(e).__name__
                    return
                holder["ws"] = ws
                await receiver(ws)

            t = loop.create_task(client_main())
            loop.drain(300)
            ct, st, peer = connector.created[0]
            st.deliver()
            reqhead = bytes(peer.buf).lower()
            offered = b"sec-websocket-extensions: permessage-deflate" in reqhead
            key = [l.split(b":", 1)[1].strip() for l in bytes(peer.buf).split(b"\r\n") if l.lower().startswith(b"sec-websocket-key")][0]
            accept = base64.b64encode(hashlib.sha1(key + GUID).digest())
            ext = (b"\r\nSec-WebSocket-Extensions: " + OFFERS[theirs].encode()) if OFFERS[theirs] else b""
            peer.transport.write(b"HTTP/1.1 101 Switching Protocols\r\nUpgrade: websocket\r\nConnection: upgrade\r\nSec-WebSocket-Accept: " + accept + ext + b"\r\n\r\n")
            ct.deliver()
            loop.drain(300)
            if "connect_error" in holder:
                # refusing a handshake answer it did not ask for (or cannot honour) is the client's right
                part.count("executions")
                part.outcome(("negotiation", side, ours, theirs, "refused:" + holder["connect_error"]))
                loop.create_task(session.close())
                loop.drain(100)
                return
            # (any window the server announces can be inflated: an answer naming permessage-deflate to a client that
            # offered it is an agreement)
            agreed = offered and (OFFERS[theirs] or "").startswith("permessage-deflate")
            holder["session"] = session

            def send(data):
                peer.transport.write(data)
                ct.deliver() if ct.deliverable() else None
                loop.drain(300)
            mask = None
        if "ws" not in holder:
            part.violation("C12:negotiation:no-websocket", f"{side} compress={ours} peer={theirs}: the handshake did not produce a WebSocket", case)
            return
        # one frame with RSV1 set (a compressed "hello"), then a plain one
        b0 = 0x80 | 0x40 | 0x1
        if mask:
            frame = bytes([b0, 0x80 | len(z)]) + mask + bytes(c ^ mask[i % 4] for i, c in enumerate(z))
        else:
            frame = bytes([b0, len(z)]) + z
        send(frame)
        send(F(1, b"plain", mask=mask))
        loop.drain(300)
        part.count("executions")
        part.count("transitions", 3)
        kinds = [g[0] for g in got]
        part.outcome(("negotiation", side, ours, theirs, agreed, tuple(kinds)))
        tag = f"{side} compress={ours!r}, peer {'offers' if side == 'server' else 'answers'} {OFFERS[theirs]!r} (extension agreed on the wire: {agreed})"
        if agreed:
            if not got or got[0][:2] != ("TEXT", "hello"):
                part.violation("C12:negotiation:agreed-but-rsv1-refused", f"{tag}: the compressed frame was delivered as {got[:1]}", case)
        else:
            if any(g[0] in ("TEXT", "BINARY") and g[1] in ("hello", b"hello") for g in got):
                part.violation("C12:negotiation:rsv1-accepted-without-extension",
                               f"{tag}: a frame with RSV1 set was inflated and delivered: {got[:2]}", case)
            elif got and got[0][0] in ("TEXT", "BINARY"):
                part.violation("C12:negotiation:rsv1-frame-delivered", f"{tag}: a frame with RSV1 set was delivered as data: {got[:1]}", case)
        if "session" in holder:
            loop.create_task(holder["session"].close())
            loop.drain(100)
    finally:
        loop.finish()


HISTORY_SHAPES = [(k, m, c) for k in ("binary", "text", "ping") for m in (False, True) for c in ("header|payload", "header-1", "mid", "whole")]


def _job(job):
    if job[0] == "history":
        part = Part()
        for shape in HISTORY_SHAPES:
            history_check(part, job[1], shape)
        for kind in ("binary", "text", "ping", "pong"):
            for size in (0, 1, 3):
                absent_consumer_check(part, job[1], kind, size)
        for bad in ("op15", "close", "ping-frag"):
            after_violation_check(part, job[1], bad)
        return part
    if job[0] == "negotiation":
        part = Part()
        for side, ours_list in (("server", (True, False)), ("client", (0, 15))):
            for ours in ours_list:
                for theirs in OFFERS:
                    negotiation_check(part, side, ours, theirs)
        part.state(("negotiation",))
        return part
    cfg, seqs, two, bytewise = job
    T = tokens(cfg)
    part = Part()
    for names in seqs:
        stream = b"".join(T[n] for n in names)
        check_stream(part, names, stream, cfg, two, bytewise)
    if seqs:
        part.sample({"cfg": cfg, "tokens": list(seqs[len(seqs) // 2]), "cuts": "all single cuts" + (", all pairs" if two else "") + (", byte-at-a-time" if bytewise else "")})
    return part


CORE = ["text", "text0", "text0-empty", "cont1", "cont0", "cont1-empty", "bin", "ping", "close", "text0-utf8half", "cont1-utf8half",
        "!text-badutf8", "!rsv1-cont", "!op3", "!ping-frag", "!close-1005"]


def sequences(T, depth, pool=None):
    names = [n for n in (pool or T) if n in T]
    for d in range(1, depth + 1):
        yield from itertools.product(names, repeat=d)


def run(ctx):
    ctx.rule = (
        "streams = all sequences up to the depth bound over the frame-token alphabet (valid frames of every kind, one token per violation "
        "class, size tokens at max-1/max/max+1, compressed tokens) per configuration; each is fed whole (vs the RFC 6455/7692 reference decoder) "
        "and under every single cut (+ all cut pairs / byte-at-a-time in the deeper sections) vs the whole run; retained bytes checked after every feed; "
        "states = distinct (delivered types, error, config)"
    )
    ctx.assumptions += [
        "real WebSocketReader + WebSocketDataQueue; the protocol object is a pause/resume recording stub",
        "non-minimal length encodings and mask direction are not enforced by the reference (the property does not name them); decoding stops at a Close frame",
        "retained bytes = len(_partial) + sum(len(_payload_fragments)) + len(_tail) <= max_msg_size + 125 (an interleaved control frame) + 14 (one header)",
    ]
    jobs = []
    # (the default-size configuration, max_msg_size 4 MiB, takes part in the history and negotiation sections only: its
    # size tokens are megabytes long and cannot be cut everywhere)
    for cfg in (CONFIGS[:5] if ctx.quick else CONFIGS[:6]):
        T = tokens(cfg)
        big = cfg["max_msg_size"] == 0 or cfg["max_msg_size"] > 1000
        d2 = [s for s in sequences(T, 2)]
        if big:
            d2 = [s for s in d2 if sum(len(T[n]) for n in s) < 400 or len(s) == 1]
        pool = CORE + [n for n in T if n.startswith(("z", "!z", "bin-max", "!bin-max", "bin0-half", "cont1-half", "!cont1-half"))]
        d3 = [s for s in sequences(T, 3, pool) if len(s) >= 3 and sum(len(T[n]) for n in s) < 400]
        if not ctx.quick:
            # four tokens: over the core alphabet only (the extended pool to the fourth power is beyond an hour)
            d3 += [s for s in sequences(T, 4, CORE) if len(s) == 4 and sum(len(T[n]) for n in s) < 400]
        for i in range(0, len(d2), 150):
            jobs.append((cfg, d2[i:i + 150], True, True))
        # thorough: every pair of cuts for the three-token sequences over the core alphabet; the other three-token
        # sequences and the four-token ones get every single cut and byte-at-a-time
        core = set(CORE)
        d3a = [s for s in d3 if len(s) <= 3 and not ctx.quick and all(n in core for n in s)]     # + every pair of cuts
        d3b = [s for s in d3 if not (len(s) <= 3 and not ctx.quick and all(n in core for n in s))]
        for i in range(0, len(d3a), 300):
            jobs.append((cfg, d3a[i:i + 300], True, True))
        for i in range(0, len(d3b), 300):
            jobs.append((cfg, d3b[i:i + 300], False, True))
    for cfg in (CONFIGS[:5] if ctx.quick else CONFIGS):
        jobs.append(("history", cfg))
    jobs.append(("negotiation",))
    for part in ctx.pmap(_job, jobs):
        ctx.merge(part)
    ctx.notes["configs"] = (CONFIGS[:5] if ctx.quick else CONFIGS)


def replay(case):
    cfg = case["cfg"]
    if case.get("kind") == "history":
        part = Part()
        history_check(part, cfg, tuple(case["shape"]))
        return part.violations
    if case.get("kind") == "negotiation":
        part = Part()
        negotiation_check(part, *case["shape"])
        return part.violations
    if case.get("kind") == "absent":
        part = Part()
        absent_consumer_check(part, cfg, *case["shape"])
        return part.violations
    if case.get("kind") == "after-violation":
        part = Part()
        after_violation_check(part, cfg, *case["shape"])
        return part.violations
    T = tokens(cfg)
    names = case["tokens"]
    stream = b"".join(T[n] for n in names)
    part = Part()
    check_stream(part, names, stream, cfg, False, False)
    if case.get("cuts") and not case.get("consume"):
        cuts = tuple(case["cuts"])
        base = run_reader(stream, (), cfg)
        o = run_reader(stream, cuts, cfg)
        bound = cfg["max_msg_size"] + 125 + 14 if cfg["max_msg_size"] else None
        if "crash" in o:
            part.violation(f"C12:exception-escapes:{o['crash'][0]}", str(o), case)
        else:
            if o["msgs"] != base.get("msgs") or o["err"] != base.get("err"):
                part.violation("C12:segmentation-dependent", f"{o} vs {base}", case)
            if o["after_error"]:
                part.violation("C12:delivered-after-error", str(o), case)
            if bound is not None and o["kept"] > bound:
                part.violation("C12:retained-bytes-unbounded", str(o), case)
    return part.violations
